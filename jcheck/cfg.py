"""Statement-level control-flow graphs with exception edges.

Nodes are simple statements plus synthetic nodes for atomic branch conditions
(`if a and not b` becomes two test nodes, so that edge-dominance yields guard
sets directly), loop heads, for-iterations, with-entries and except-entries.
`finally` bodies are duplicated per way of entering them (normal / exception /
return / break / continue) so that every path of the graph is a real path
shape of the function.

Edge kinds:  n  normal          T/F  branch on an atomic condition
             iter/done  for-loop                exc  exceptional transfer
"""

import ast

from . import AnalysisError

NORMAL_KINDS = ("n", "T", "F", "iter", "done")
ALL_KINDS = NORMAL_KINDS + ("exc",)


class Node:
    __slots__ = ("id", "kind", "ast", "stmt", "copy", "succ", "pred", "lineno")

    def __init__(self, nid, kind, astnode=None, stmt=None, copy="n"):
        self.id = nid
        self.kind = kind
        self.ast = astnode
        self.stmt = stmt if stmt is not None else astnode
        self.copy = copy
        self.succ = []  # (dst, kind, cond)
        self.pred = []  # (src, kind, cond)
        self.lineno = getattr(astnode, "lineno", None) or getattr(stmt, "lineno", None)

    def __repr__(self):
        return f"<N{self.id} {self.kind} L{self.lineno}{'' if self.copy == 'n' else '/' + self.copy}>"


class _Frame:
    def __init__(self, typ, **kw):
        self.typ = typ
        self.__dict__.update(kw)
        self.copies = {}


def _is_exit_call(call):
    f = call.func
    if isinstance(f, ast.Attribute) and isinstance(f.value, ast.Name):
        if (f.value.id, f.attr) in (("sys", "exit"), ("os", "_exit")):
            return True
    if isinstance(f, ast.Name) and f.id in ("exit", "quit"):
        return True
    return False


def iter_own(node):
    """Walk an AST node without descending into nested function/class/lambda bodies."""
    stack = [node]
    while stack:
        n = stack.pop()
        yield n
        for c in ast.iter_child_nodes(n):
            if isinstance(c, (ast.FunctionDef, ast.AsyncFunctionDef, ast.ClassDef, ast.Lambda)):
                continue
            stack.append(c)


def may_raise(node):
    for n in iter_own(node):
        if isinstance(n, (ast.Call, ast.Raise, ast.Assert, ast.Await)):
            return True
    return False


class CFG:
    def __init__(self, func_node, name="<func>"):
        self.name = name
        self.func = func_node
        self.nodes = []
        self.entry = self._new("entry", func_node)
        self.exit = self._new("exit", func_node)
        self.raise_exit = self._new("raise", func_node)
        self._frames = []
        self._containing = {}
        out = self._block(func_node.body, [(self.entry, "n", None)])
        self._connect(out, self.exit)
        self._index_contents()

    # ----------------------------------------------------------- primitives
    def _new(self, kind, astnode=None, stmt=None, copy=None):
        n = Node(len(self.nodes), kind, astnode, stmt, copy or getattr(self, "_copy", "n"))
        self.nodes.append(n)
        return n

    def _connect(self, preds, dst):
        for src, kind, cond in preds:
            if not any(d is dst and k == kind and c is cond for d, k, c in src.succ):
                src.succ.append((dst, kind, cond))
                dst.pred.append((src, kind, cond))

    # ------------------------------------------------------------- routing
    def _route_exc(self, preds, kind="exc", upto=None):
        """Route an exception raised at the dangling edges `preds` outward."""
        preds = [(s, "exc", None) for s, _, _ in preds]
        i = (len(self._frames) if upto is None else upto) - 1
        while i >= 0:
            fr = self._frames[i]
            if fr.typ == "try":
                caught = False
                for hnode, catches in fr.handlers:
                    if kind == "sysexit":
                        if catches == "all":
                            self._connect(preds, hnode)
                            caught = True
                    else:
                        self._connect(preds, hnode)
                        if catches in ("all", "exception"):
                            caught = True
                    if caught:
                        break
                if caught:
                    return
            elif fr.typ == "finally":
                key = ("x", kind)
                if key not in fr.copies:
                    entry = self._new("finally", fr.stmt, fr.stmt, copy="x")
                    fr.copies[key] = entry
                    self._connect(preds, entry)
                    saved_frames, saved_copy = self._frames, getattr(self, "_copy", "n")
                    self._frames, self._copy = self._frames[:i], "x"
                    out = self._block(fr.body, [(entry, "n", None)])
                    self._copy = saved_copy
                    # after the finally body the exception continues outward
                    self._route_exc(out, kind)
                    self._frames = saved_frames
                else:
                    self._connect(preds, fr.copies[key])
                return
            i -= 1
        self._connect(preds, self.raise_exit)

    def _route_jump(self, preds, what):
        """return / break / continue through enclosing finally blocks."""
        i = len(self._frames) - 1
        while i >= 0:
            fr = self._frames[i]
            if fr.typ == "finally":
                key = (what, None)
                if key not in fr.copies:
                    entry = self._new("finally", fr.stmt, fr.stmt, copy=what[0])
                    fr.copies[key] = entry
                    self._connect(preds, entry)
                    saved_frames, saved_copy = self._frames, getattr(self, "_copy", "n")
                    self._frames, self._copy = self._frames[:i], what[0]
                    out = self._block(fr.body, [(entry, "n", None)])
                    self._copy = saved_copy
                    self._route_jump(out, what)
                    self._frames = saved_frames
                else:
                    self._connect(preds, fr.copies[key])
                return
            if fr.typ == "loop" and what in ("break", "continue"):
                if what == "break":
                    fr.breaks.extend(preds)
                else:
                    self._connect(preds, fr.head)
                return
            i -= 1
        if what != "return":
            raise AnalysisError("cfg", f"{what} outside loop in {self.name}")
        self._connect(preds, self.exit)

    # --------------------------------------------------------------- tests
    def _test(self, expr, preds, stmt):
        """Decompose a condition; returns (true_dangling, false_dangling)."""
        if isinstance(expr, ast.BoolOp):
            if isinstance(expr.op, ast.And):
                t, f = self._test(expr.values[0], preds, stmt)
                for v in expr.values[1:]:
                    t, f2 = self._test(v, t, stmt)
                    f = f + f2
                return t, f
            t, f = self._test(expr.values[0], preds, stmt)
            for v in expr.values[1:]:
                t2, f = self._test(v, f, stmt)
                t = t + t2
            return t, f
        if isinstance(expr, ast.UnaryOp) and isinstance(expr.op, ast.Not):
            t, f = self._test(expr.operand, preds, stmt)
            return f, t
        node = self._new("test", expr, stmt)
        self._connect(preds, node)
        if may_raise(expr):
            self._route_exc([(node, "exc", None)])
        if isinstance(expr, ast.Constant):
            if expr.value:
                return [(node, "T", expr)], []
            return [], [(node, "F", expr)]
        return [(node, "T", expr)], [(node, "F", expr)]

    # ---------------------------------------------------------- statements
    def _block(self, stmts, preds):
        for s in stmts:
            preds = self._stmt(s, preds)
        return preds

    def _stmt(self, s, preds):
        if isinstance(s, ast.If):
            t, f = self._test(s.test, preds, s)
            out = self._block(s.body, t)
            out2 = self._block(s.orelse, f) if s.orelse else f
            return out + out2
        if isinstance(s, ast.While):
            head = self._new("loop_head", s, s)
            self._connect(preds, head)
            t, f = self._test(s.test, [(head, "n", None)], s)
            fr = _Frame("loop", head=head, breaks=[])
            self._frames.append(fr)
            out = self._block(s.body, t)
            self._frames.pop()
            self._connect(out, head)
            after = self._block(s.orelse, f) if s.orelse else f
            return after + fr.breaks
        if isinstance(s, (ast.For, ast.AsyncFor)):
            head = self._new("for", s, s)
            self._connect(preds, head)
            if may_raise(s.iter):
                self._route_exc([(head, "exc", None)])
            fr = _Frame("loop", head=head, breaks=[])
            self._frames.append(fr)
            out = self._block(s.body, [(head, "iter", None)])
            self._frames.pop()
            self._connect(out, head)
            done = [(head, "done", None)]
            after = self._block(s.orelse, done) if s.orelse else done
            return after + fr.breaks
        if isinstance(s, (ast.With, ast.AsyncWith)):
            node = self._new("with", s, s)
            self._connect(preds, node)
            if any(may_raise(i.context_expr) for i in s.items):
                self._route_exc([(node, "exc", None)])
            return self._block(s.body, [(node, "n", None)])
        if isinstance(s, ast.Try) or s.__class__.__name__ == "TryStar":
            return self._try(s, preds)
        if isinstance(s, ast.Assert):
            t, f = self._test(s.test, preds, s)
            if f:
                anode = self._new("assert_fail", s, s)
                self._connect(f, anode)
                self._route_exc([(anode, "exc", None)])
            return t
        if isinstance(s, ast.Return):
            node = self._new("stmt", s)
            self._connect(preds, node)
            if s.value is not None and may_raise(s.value):
                self._route_exc([(node, "exc", None)])
            self._route_jump([(node, "n", None)], "return")
            return []
        if isinstance(s, ast.Raise):
            node = self._new("stmt", s)
            self._connect(preds, node)
            self._route_exc([(node, "exc", None)])
            return []
        if isinstance(s, ast.Break):
            node = self._new("stmt", s)
            self._connect(preds, node)
            self._route_jump([(node, "n", None)], "break")
            return []
        if isinstance(s, ast.Continue):
            node = self._new("stmt", s)
            self._connect(preds, node)
            self._route_jump([(node, "n", None)], "continue")
            return []
        if isinstance(s, ast.Match):
            raise AnalysisError("cfg", f"match statement not supported in {self.name}")
        # simple statement (incl. nested def/class as a definition node)
        node = self._new("stmt", s)
        self._connect(preds, node)
        if isinstance(s, (ast.FunctionDef, ast.AsyncFunctionDef, ast.ClassDef)):
            return [(node, "n", None)]
        if isinstance(s, ast.Expr) and isinstance(s.value, ast.Call) and _is_exit_call(s.value):
            self._route_exc([(node, "exc", None)], kind="sysexit")
            return []
        if may_raise(s):
            self._route_exc([(node, "exc", None)])
        return [(node, "n", None)]

    def _try(self, s, preds):
        if s.finalbody:
            self._frames.append(_Frame("finally", body=s.finalbody, stmt=s))
        handlers = []
        for h in s.handlers:
            hn = self._new("except", h, s)
            handlers.append((hn, _catch_class(h)))
        if handlers:
            self._frames.append(_Frame("try", handlers=handlers))
        out = self._block(s.body, preds)
        if handlers:
            self._frames.pop()
        out = self._block(s.orelse, out) if s.orelse else out
        for (hn, _), h in zip(handlers, s.handlers):
            out = out + self._block(h.body, [(hn, "n", None)])
        if s.finalbody:
            self._frames.pop()
            fentry = self._new("finally", s, s, copy="n")
            self._connect(out, fentry)
            out = self._block(s.finalbody, [(fentry, "n", None)])
        return out

    # ------------------------------------------------------------- queries
    def _index_contents(self):
        for n in self.nodes:
            roots = []
            if n.kind in ("stmt", "test"):
                roots = [n.ast]
            elif n.kind == "for":
                roots = [n.ast.iter, n.ast.target]
            elif n.kind == "with":
                roots = [i for it in n.ast.items for i in (it.context_expr, it.optional_vars) if i is not None]
            elif n.kind == "except":
                roots = [n.ast.type] if n.ast.type is not None else []
            for r in roots:
                if isinstance(r, (ast.FunctionDef, ast.AsyncFunctionDef, ast.ClassDef)):
                    self._containing.setdefault(id(r), []).append(n)
                    continue
                for sub in iter_own(r):
                    self._containing.setdefault(id(sub), []).append(n)

    def nodes_of(self, astnode):
        """CFG nodes that evaluate `astnode` (several when inside a duplicated finally)."""
        return list(self._containing.get(id(astnode), []))

    def own_ast(self, node):
        """AST parts evaluated *at* this CFG node."""
        if node.kind in ("stmt", "test"):
            return [node.ast]
        if node.kind == "for":
            return [node.ast.iter, node.ast.target]
        if node.kind == "with":
            return [i for it in node.ast.items for i in (it.context_expr, it.optional_vars) if i is not None]
        if node.kind == "except" and node.ast.type is not None:
            return [node.ast.type]
        return []

    def calls_at(self, node):
        out = []
        for r in self.own_ast(node):
            if isinstance(r, (ast.FunctionDef, ast.AsyncFunctionDef, ast.ClassDef)):
                continue
            for sub in iter_own(r):
                if isinstance(sub, ast.Call):
                    out.append(sub)
        return out

    def reachable(self, kinds=ALL_KINDS, start=None, skip_edge=None):
        start = start or self.entry
        seen = {start.id}
        stack = [start]
        while stack:
            n = stack.pop()
            for d, k, c in n.succ:
                if k not in kinds:
                    continue
                if skip_edge is not None and skip_edge(n, d, k, c):
                    continue
                if d.id not in seen:
                    seen.add(d.id)
                    stack.append(d)
        return seen

    def dominators(self, kinds=ALL_KINDS):
        """dict node id -> set of dominator ids (reachable nodes only)."""
        reach = self.reachable(kinds)
        order = [n for n in self.nodes if n.id in reach]
        dom = {n.id: set(reach) for n in order}
        dom[self.entry.id] = {self.entry.id}
        changed = True
        while changed:
            changed = False
            for n in order:
                if n is self.entry:
                    continue
                ps = [p.id for p, k, _ in n.pred if k in kinds and p.id in reach]
                new = set.intersection(*(dom[p] for p in ps)) if ps else set()
                new = new | {n.id}
                if new != dom[n.id]:
                    dom[n.id] = new
                    changed = True
        return dom

    def postdominators(self, kinds=NORMAL_KINDS, exits=None):
        """dict node id -> set of post-dominator ids w.r.t. the given exit nodes."""
        exits = exits if exits is not None else [self.exit]
        exit_ids = {e.id for e in exits}
        # nodes that can reach an exit
        can = set(exit_ids)
        changed = True
        while changed:
            changed = False
            for n in self.nodes:
                if n.id in can:
                    continue
                if any(k in kinds and d.id in can for d, k, _ in n.succ):
                    can.add(n.id)
                    changed = True
        pdom = {i: set(can) for i in can}
        for e in exit_ids:
            pdom[e] = {e}
        changed = True
        while changed:
            changed = False
            for n in self.nodes:
                if n.id not in can or n.id in exit_ids:
                    continue
                ss = [d.id for d, k, _ in n.succ if k in kinds and d.id in can]
                new = set.intersection(*(pdom[s] for s in ss)) if ss else set()
                new = new | {n.id}
                if new != pdom[n.id]:
                    pdom[n.id] = new
                    changed = True
        return pdom

    def in_loop(self, node, kinds=NORMAL_KINDS):
        """True if node lies on a cycle (over the given edge kinds)."""
        seen = set()
        stack = [d for d, k, _ in node.succ if k in kinds]
        while stack:
            n = stack.pop()
            if n is node:
                return True
            if n.id in seen:
                continue
            seen.add(n.id)
            stack.extend(d for d, k, _ in n.succ if k in kinds)
        return False

    def paths(self, kinds=ALL_KINDS, max_visits=2, cap=20000, targets=None):
        """Enumerate entry->exit paths; each node visited at most max_visits times per path.

        Yields lists of (node, edge_kind_taken_to_leave) ; raises AnalysisError above cap.
        """
        targets = targets or {self.exit.id, self.raise_exit.id}
        count = 0
        stack = [(self.entry, [], {})]
        while stack:
            n, path, visits = stack.pop()
            if n.id in targets:
                count += 1
                if count > cap:
                    raise AnalysisError("cfg.paths", f"more than {cap} paths in {self.name}")
                yield path + [(n, None, None)]
                continue
            v = visits.get(n.id, 0)
            if v >= max_visits:
                continue
            visits2 = dict(visits)
            visits2[n.id] = v + 1
            for d, k, c in n.succ:
                if k in kinds:
                    stack.append((d, path + [(n, k, c)], visits2))


def _catch_class(h):
    if h.type is None:
        return "all"
    names = []
    t = h.type
    elts = t.elts if isinstance(t, ast.Tuple) else [t]
    for e in elts:
        if isinstance(e, ast.Name):
            names.append(e.id)
        elif isinstance(e, ast.Attribute):
            names.append(e.attr)
    if "BaseException" in names:
        return "all"
    if "Exception" in names:
        return "exception"
    return "some"


# ---------------------------------------------------------------- def/use ----
def assigned_names(target):
    """Names bound by an assignment target."""
    out = []
    for n in ast.walk(target):
        if isinstance(n, ast.Name) and isinstance(n.ctx, (ast.Store, ast.Del)):
            out.append(n.id)
    return out


def node_defs(cfg, node):
    """Local names (re)bound at this CFG node -> the value expression or None."""
    defs = {}
    a = node.ast
    if node.kind == "stmt":
        if isinstance(a, ast.Assign):
            for t in a.targets:
                if isinstance(t, ast.Name):
                    defs[t.id] = a.value
                elif isinstance(t, (ast.Tuple, ast.List)):
                    for i, e in enumerate(t.elts):
                        if isinstance(e, ast.Name):
                            defs[e.id] = ("unpack", a.value, i)
                        else:
                            for nm in assigned_names(e):
                                defs[nm] = None
        elif isinstance(a, ast.AugAssign):
            if isinstance(a.target, ast.Name):
                defs[a.target.id] = ("aug", a)
        elif isinstance(a, ast.AnnAssign):
            if isinstance(a.target, ast.Name) and a.value is not None:
                defs[a.target.id] = a.value
        elif isinstance(a, ast.Delete):
            for t in a.targets:
                for nm in assigned_names(t):
                    defs[nm] = None
        elif isinstance(a, (ast.FunctionDef, ast.AsyncFunctionDef, ast.ClassDef)):
            defs[a.name] = None
        elif isinstance(a, (ast.Import, ast.ImportFrom)):
            for al in a.names:
                defs[(al.asname or al.name).split(".")[0]] = None
        for sub in iter_own(a):
            if isinstance(sub, ast.NamedExpr) and isinstance(sub.target, ast.Name):
                defs[sub.target.id] = sub.value
    elif node.kind == "test":
        for sub in iter_own(a):
            if isinstance(sub, ast.NamedExpr) and isinstance(sub.target, ast.Name):
                defs[sub.target.id] = sub.value
    elif node.kind == "for":
        t = a.target
        if isinstance(t, ast.Name):
            defs[t.id] = ("iter", a.iter)
        elif isinstance(t, (ast.Tuple, ast.List)):
            for i, e in enumerate(t.elts):
                if isinstance(e, ast.Name):
                    defs[e.id] = ("iter_unpack", a.iter, i)
                else:
                    for nm in assigned_names(e):
                        defs[nm] = None
    elif node.kind == "with":
        for it in a.items:
            if it.optional_vars is not None:
                if isinstance(it.optional_vars, ast.Name):
                    defs[it.optional_vars.id] = ("with", it.context_expr)
                else:
                    for nm in assigned_names(it.optional_vars):
                        defs[nm] = None
    elif node.kind == "except":
        if a.name:
            defs[a.name] = None
    return defs


class ReachingDefs:
    """Reaching definitions of local names: for node n, var -> set of def node ids.

    The entry node defines every parameter (def id = entry id).
    """

    def __init__(self, cfg, params=()):
        self.cfg = cfg
        self.defs_at = {n.id: node_defs(cfg, n) for n in cfg.nodes}
        self.defs_at[cfg.entry.id] = {p: ("param", p) for p in params}
        IN = {n.id: {} for n in cfg.nodes}
        OUT = {n.id: {} for n in cfg.nodes}
        work = list(cfg.nodes)
        while work:
            n = work.pop()
            merged = {}
            for p, _, _ in n.pred:
                for var, ds in OUT[p.id].items():
                    merged.setdefault(var, set()).update(ds)
            IN[n.id] = merged
            out = {v: set(ds) for v, ds in merged.items()}
            for var in self.defs_at[n.id]:
                out[var] = {n.id}
            if out != OUT[n.id]:
                OUT[n.id] = out
                for d, _, _ in n.succ:
                    work.append(d)
        self.IN, self.OUT = IN, OUT

    def reaching(self, node, var):
        return set(self.IN[node.id].get(var, ()))

    def unique_def(self, node, var):
        """(def node, value expr) if exactly one definition of var reaches node, else None."""
        ds = self.reaching(node, var)
        if len(ds) != 1:
            return None
        d = next(iter(ds))
        return self.cfg.nodes[d], self.defs_at[d].get(var)

"""jcheck - repository-specific static analysis for the JADE properties.

Nothing in this package imports or executes `jade`; every module works on the
syntax trees of /repo's current working tree (or of in-memory overlays of it).
"""

import os

REPO = os.environ.get("JCHECK_REPO", "/repo")
PKG = "jade"


class AnalysisError(Exception):
    """The code no longer has a shape the rule recognises (verdict UNKNOWN).

    Never reported as a violation: the CLI prints ANALYSIS-ERROR and exits 2.
    """

    def __init__(self, rule, reason):
        super().__init__(f"{rule}: {reason}")
        self.rule = rule
        self.reason = reason

"""Source index: modules, classes (bases, MRO), functions, imports, constants.

Parses every jade/**/*.py of the current working tree on every run. An optional
overlay {relative path: source text} replaces files in memory (used by the
self-test; no scratch copy touches the disk).
"""

import ast
import os

from . import AnalysisError, PKG, REPO


class ModuleInfo:
    def __init__(self, name, relpath, source, tree):
        self.name = name
        self.relpath = relpath
        self.source = source
        self.tree = tree
        self.imports = {}  # local name -> dotted target
        self.functions = {}
        self.classes = {}
        self.consts = {}  # top-level NAME = <expr>
        self.is_pkg = relpath.endswith("__init__.py")

    def __repr__(self):
        return f"<Module {self.name}>"


class ClassInfo:
    def __init__(self, qual, name, module, node):
        self.qual = qual
        self.name = name
        self.module = module
        self.node = node
        self.base_exprs = list(node.bases)
        self.bases = []  # resolved dotted names (internal quals or external)
        self.methods = {}
        self.setters = {}
        self.class_vars = {}  # NAME = expr in class body
        self.ann_fields = {}  # NAME: annotation (pydantic / dataclass style)
        self.ann_values = {}  # NAME: value expr of an annotated assignment

    def __repr__(self):
        return f"<Class {self.qual}>"


class FuncInfo:
    def __init__(self, qual, name, module, cls, node, parent=None):
        self.qual = qual
        self.name = name
        self.module = module
        self.cls = cls
        self.node = node
        self.parent = parent
        a = node.args
        self.posonly = [x.arg for x in a.posonlyargs]
        self.params = [x.arg for x in a.posonlyargs + a.args]
        self.kwonly = [x.arg for x in a.kwonlyargs]
        self.vararg = a.vararg.arg if a.vararg else None
        self.kwarg = a.kwarg.arg if a.kwarg else None
        self.annotations = {
            x.arg: x.annotation for x in a.posonlyargs + a.args + a.kwonlyargs if x.annotation
        }
        pos = a.posonlyargs + a.args
        self.defaults = {}
        for p, d in zip(pos[len(pos) - len(a.defaults):], a.defaults):
            self.defaults[p.arg] = d
        for p, d in zip(a.kwonlyargs, a.kw_defaults):
            if d is not None:
                self.defaults[p.arg] = d
        self.decorators = [dotted(d.func if isinstance(d, ast.Call) else d) for d in node.decorator_list]
        self.kind = "function"
        if cls is not None and parent is None:
            self.kind = "method"
            for d in self.decorators:
                if d == "classmethod":
                    self.kind = "classmethod"
                elif d == "staticmethod":
                    self.kind = "staticmethod"
                elif d == "property" or d == "abc.abstractproperty":
                    self.kind = "property"
                elif d and d.endswith(".setter"):
                    self.kind = "setter"

    @property
    def short(self):
        if self.cls is not None:
            return f"{self.cls.name}.{self.name}"
        return f"{self.module.name.split('.')[-1]}.{self.name}"

    @property
    def bound_params(self):
        """Parameters as seen by a caller of a bound method / plain function."""
        if self.kind in ("method", "classmethod", "property", "setter"):
            return self.params[1:]
        return self.params

    def loc(self, node=None):
        n = node if node is not None else self.node
        return f"{self.module.relpath}:{getattr(n, 'lineno', '?')}"

    def __repr__(self):
        return f"<Func {self.qual}>"


def dotted(node):
    """a.b.c for Name/Attribute chains, else None."""
    parts = []
    while isinstance(node, ast.Attribute):
        parts.append(node.attr)
        node = node.value
    if isinstance(node, ast.Name):
        parts.append(node.id)
        return ".".join(reversed(parts))
    return None



class _Canon(ast.NodeTransformer):
    """Load-time canonical forms, so that rules see one spelling of equivalent statements:
       t = t <op> v   ->   t <op>= v      (t a name / attribute / subscript chain without calls)
       t = v + t      ->   t += v         (v a numeric constant)
       not (a == b)   ->   a != b         (also in / is)
       x = a if c else b  ->  if c: x = a else: x = b      (and `return a if c else b`)
       if c: ...jump else: rest  ->  if c: ...jump ; rest"""

    @staticmethod
    def _pure(e):
        if isinstance(e, (ast.Name, ast.Constant)):
            return True
        if isinstance(e, ast.Attribute):
            return _Canon._pure(e.value)
        if isinstance(e, ast.Subscript):
            return _Canon._pure(e.value) and _Canon._pure(e.slice)
        return False

    def visit_Assign(self, node):
        self.generic_visit(node)
        if len(node.targets) == 1 and isinstance(node.value, ast.BinOp) and self._pure(node.targets[0]) and not isinstance(node.targets[0], ast.Constant):
            t, v = node.targets[0], node.value
            ts = ast.dump(t).replace("Store()", "Load()")
            if ast.dump(v.left) == ts and isinstance(v.op, (ast.Add, ast.Sub, ast.Mult)):
                return ast.copy_location(ast.AugAssign(target=t, op=v.op, value=v.right), node)
            if ast.dump(v.right) == ts and isinstance(v.op, ast.Add) and isinstance(v.left, ast.Constant) and isinstance(v.left.value, (int, float)):
                return ast.copy_location(ast.AugAssign(target=t, op=v.op, value=v.left), node)
        return node


    _FLIP = {ast.Eq: ast.NotEq, ast.NotEq: ast.Eq, ast.In: ast.NotIn, ast.NotIn: ast.In, ast.Is: ast.IsNot, ast.IsNot: ast.Is}

    def visit_UnaryOp(self, node):
        # not (a == b) -> a != b ; not (a in b) -> a not in b ; not (a is b) -> a is not b   (total negations only; < and > are left alone)
        self.generic_visit(node)
        if isinstance(node.op, ast.Not) and isinstance(node.operand, ast.Compare) and len(node.operand.ops) == 1 and type(node.operand.ops[0]) in self._FLIP:
            c = node.operand
            return ast.copy_location(ast.Compare(left=c.left, ops=[self._FLIP[type(c.ops[0])]()], comparators=c.comparators), node)
        return node

    @staticmethod
    def _store(t):
        import copy

        t = copy.deepcopy(t)
        return t

    def _stmts(self, body):
        """statement-list forms:
           x = a if c else b / return a if c else b   ->  if c: x = a  else: x = b
           if c: ...jump  else: rest                    ->  if c: ...jump ; rest        (plain else, not an elif chain)"""
        out = []
        for st in body:
            if isinstance(st, ast.Assign) and isinstance(st.value, ast.IfExp) and len(st.targets) == 1 and isinstance(st.targets[0], (ast.Name, ast.Attribute)):
                e = st.value
                a = ast.copy_location(ast.Assign(targets=[st.targets[0]], value=e.body), st)
                b = ast.copy_location(ast.Assign(targets=[self._store(st.targets[0])], value=e.orelse), st)
                out.extend(self._stmts([ast.copy_location(ast.If(test=e.test, body=self._stmts([a]), orelse=self._stmts([b])), st)]))
            elif isinstance(st, ast.Return) and isinstance(st.value, ast.IfExp):
                e = st.value
                a = ast.copy_location(ast.Return(value=e.body), st)
                b = ast.copy_location(ast.Return(value=e.orelse), st)
                out.extend(self._stmts([ast.copy_location(ast.If(test=e.test, body=self._stmts([a]), orelse=self._stmts([b])), st)]))
            elif (isinstance(st, ast.If) and st.orelse and isinstance(st.body[-1], (ast.Return, ast.Raise, ast.Continue, ast.Break))
                    and not (len(st.orelse) == 1 and isinstance(st.orelse[0], ast.If))):
                out.append(ast.copy_location(ast.If(test=st.test, body=st.body, orelse=[]), st))
                out.extend(st.orelse)
            else:
                out.append(st)
        return out

    def generic_visit(self, node):
        super().generic_visit(node)
        for f in ("body", "orelse", "finalbody"):
            b = getattr(node, f, None)
            if isinstance(b, list) and b and isinstance(b[0], ast.stmt):
                setattr(node, f, self._stmts(b))
        if isinstance(node, ast.Try):
            for h in node.handlers:
                pass
        return node


class _InlineTemps(ast.NodeTransformer):
    """`t = E` immediately followed by a simple statement that reads t exactly once - t bound once and read once in the whole function - is
    read as that statement with E in place of t, provided E is then evaluated at the same point: t is the statement's whole value, or an
    argument of its outermost call (callee expression and all earlier arguments are names / attribute chains / constants), or the first
    argument of a builtin-style wrapper `int(t)`, `sorted(t)`, `list(t)`, `str(t)` ... in such an argument position.  Rules then see
    `f(a, g(x))` whether or not the author named g(x) first."""

    @staticmethod
    def _pure(e):
        return _Canon._pure(e)

    def visit_FunctionDef(self, node):
        self.generic_visit(node)
        counts = {}
        for x in ast.walk(node):
            if isinstance(x, ast.Name):
                c = counts.setdefault(x.id, [0, 0])
                c[0 if isinstance(x.ctx, ast.Store) else 1] += 1
            elif isinstance(x, (ast.Global, ast.Nonlocal)):
                for nm in x.names:
                    counts.setdefault(nm, [0, 0])[0] += 5
        params = {a.arg for a in node.args.posonlyargs + node.args.args + node.args.kwonlyargs}

        def reaches_first(e, name):
            """evaluation-order walk of `e`: 'found' if the read of `name` is reached before anything that can have an effect (a call, a
            comprehension, ...) was evaluated; names, constants, attribute chains and subscripts of those count as effect-free"""
            if isinstance(e, ast.Name):
                return "found" if e.id == name else "pure"
            if isinstance(e, ast.Constant):
                return "pure"
            if isinstance(e, (ast.Attribute, ast.Starred, ast.UnaryOp, ast.FormattedValue)):
                sub = e.operand if isinstance(e, ast.UnaryOp) else e.value
                return reaches_first(sub, name)
            seq = None
            after = "pure"
            if isinstance(e, ast.Call):
                seq, after = [e.func] + list(e.args) + [k.value for k in e.keywords], "impure"
            elif isinstance(e, ast.BinOp):
                seq = [e.left, e.right]
            elif isinstance(e, ast.Compare):
                seq = [e.left] + list(e.comparators)
            elif isinstance(e, ast.Subscript):
                seq = [e.value, e.slice]
            elif isinstance(e, ast.Slice):
                seq = [x for x in (e.lower, e.upper, e.step) if x is not None]
            elif isinstance(e, (ast.Tuple, ast.List, ast.Set)):
                seq = list(e.elts)
            elif isinstance(e, ast.Dict):
                seq = [x for kv in zip(e.keys, e.values) for x in kv if x is not None]
            elif isinstance(e, ast.JoinedStr):
                seq = list(e.values)
            elif isinstance(e, (ast.BoolOp, ast.IfExp)):
                first = e.values[0] if isinstance(e, ast.BoolOp) else e.test
                r0 = reaches_first(first, name)
                if r0 != "pure":
                    return r0
                return "impure"  # the rest is evaluated conditionally
            if seq is None:
                return "impure"
            for part in seq:
                r0 = reaches_first(part, name)
                if r0 != "pure":
                    return r0
            return after

        def slot(st, name):
            """the expression of `st` in which the single read of `name` may be replaced: (owner, field)"""
            if isinstance(st, ast.Assign):
                if not all(self._pure(t) or (isinstance(t, (ast.Tuple, ast.List)) and all(self._pure(x) for x in t.elts)) for t in st.targets):
                    return None
                cand = (st, "value")
            elif isinstance(st, ast.AugAssign):
                if not self._pure(st.target):
                    return None
                cand = (st, "value")
            elif isinstance(st, (ast.Return, ast.Expr)) and st.value is not None:
                cand = (st, "value")
            elif isinstance(st, ast.For):
                cand = (st, "iter")
            elif isinstance(st, ast.If):
                cand = (st, "test")
            else:
                return None
            e = getattr(cand[0], cand[1])
            if sum(1 for x in ast.walk(e) if isinstance(x, ast.Name) and x.id == name) != 1:
                return None
            return cand if reaches_first(e, name) == "found" else None

        def fix(body):
            out, i = [], 0
            while i < len(body):
                st = body[i]
                nxt = body[i + 1] if i + 1 < len(body) else None
                if (isinstance(st, ast.Assign) and len(st.targets) == 1 and isinstance(st.targets[0], ast.Name) and nxt is not None
                        and st.targets[0].id not in params and counts.get(st.targets[0].id) == [1, 1]
                        and not isinstance(st.value, (ast.Yield, ast.YieldFrom, ast.Await, ast.Lambda, ast.NamedExpr))
                        and isinstance(nxt, (ast.Assign, ast.AugAssign, ast.Return, ast.Expr, ast.For, ast.If))):
                    sl = slot(nxt, st.targets[0].id)
                    if sl is not None:
                        owner, field = sl
                        tname, val = st.targets[0].id, st.value

                        class Sub(ast.NodeTransformer):
                            def visit_Name(self, n):
                                return val if n.id == tname and isinstance(n.ctx, ast.Load) else n

                        setattr(owner, field, Sub().visit(getattr(owner, field)))
                        i += 1
                        continue
                out.append(st)
                i += 1
            return out

        for sub in ast.walk(node):
            if sub is not node and isinstance(sub, (ast.FunctionDef, ast.AsyncFunctionDef, ast.Lambda)):
                continue
            for f in ("body", "orelse", "finalbody"):
                b = getattr(sub, f, None)
                if isinstance(b, list) and b and isinstance(b[0], ast.stmt):
                    changed = True
                    while changed:
                        nb = fix(b)
                        changed = len(nb) != len(b)
                        b = nb
                    setattr(sub, f, b)
            if isinstance(sub, ast.Try):
                for h in sub.handlers:
                    h.body = fix(h.body)
        return node

    visit_AsyncFunctionDef = visit_FunctionDef


class _CanonFn(ast.NodeTransformer):
    """Function-level canonical forms (they need the set of names used in the whole function):
       if any(P(x) for x in IT): BODY-ending-in-return/raise   ->   for x in IT: if P(x): BODY
           (x is the comprehension variable, not otherwise a name of the function; any() stops at the first hit and BODY leaves the
            function, so both forms evaluate P on the same prefix of IT and run BODY once)
       i = len(L) - 1; while i >= 0: BODY(L[i]); i -= 1          ->   for <v> in reversed(L): BODY(<v>)
       i = 0; while i < len(L): BODY(L[i]); i += 1               ->   for <v> in L: BODY(<v>)
           (i is read only as L[i] inside BODY and nowhere after the loop, BODY has no continue/break-else and does not rebind or mutate L)"""

    def visit_FunctionDef(self, node):
        self.generic_visit(node)
        names = {}
        for x in ast.walk(node):
            if isinstance(x, ast.Name):
                names[x.id] = names.get(x.id, 0) + 1
            elif isinstance(x, ast.arg):
                names[x.arg] = names.get(x.arg, 0) + 1
        self._names = names
        self._fn = node
        node.body = self._block(node.body)
        return node

    visit_AsyncFunctionDef = visit_FunctionDef

    def _block(self, body):
        out = []
        i = 0
        while i < len(body):
            st = body[i]
            for f in ("body", "orelse", "finalbody"):
                b = getattr(st, f, None)
                if isinstance(b, list) and b and isinstance(b[0], ast.stmt) and not isinstance(st, (ast.FunctionDef, ast.AsyncFunctionDef, ast.ClassDef)):
                    setattr(st, f, self._block(b))
            if isinstance(st, ast.Try):
                for h in st.handlers:
                    h.body = self._block(h.body)
            r = self._any_if(st)
            if r is not None:
                out.append(r)
                i += 1
                continue
            if i + 1 < len(body):
                r = self._index_while(st, body[i + 1])
                if r is not None:
                    out.append(r)
                    i += 2
                    continue
            out.append(st)
            i += 1
        return out

    @staticmethod
    def _always_leaves(body):
        last = body[-1]
        if isinstance(last, (ast.Return, ast.Raise)):
            return True
        if isinstance(last, ast.If) and last.orelse:
            return _CanonFn._always_leaves(last.body) and _CanonFn._always_leaves(last.orelse)
        return False

    def _any_if(self, st):
        if not (isinstance(st, ast.If) and not st.orelse and isinstance(st.test, ast.Call) and isinstance(st.test.func, ast.Name) and st.test.func.id == "any"
                and len(st.test.args) == 1 and not st.test.keywords and isinstance(st.test.args[0], (ast.GeneratorExp, ast.ListComp))):
            return None
        g = st.test.args[0]
        if len(g.generators) != 1 or g.generators[0].ifs or g.generators[0].is_async or not isinstance(g.generators[0].target, ast.Name):
            return None
        var = g.generators[0].target.id
        inside = sum(1 for x in ast.walk(g) if isinstance(x, ast.Name) and x.id == var)
        if self._names.get(var, 0) != inside or not self._always_leaves(st.body):
            return None
        inner = ast.copy_location(ast.If(test=g.elt, body=st.body, orelse=[]), st)
        return ast.copy_location(ast.For(target=ast.Name(id=var, ctx=ast.Store()), iter=g.generators[0].iter, body=[inner], orelse=[], type_comment=None), st)

    def _index_while(self, init, loop):
        if not (isinstance(init, ast.Assign) and len(init.targets) == 1 and isinstance(init.targets[0], ast.Name) and isinstance(loop, ast.While) and not loop.orelse
                and isinstance(loop.test, ast.Compare) and len(loop.test.ops) == 1 and isinstance(loop.test.left, ast.Name) and loop.test.left.id == init.targets[0].id and len(loop.body) >= 2):
            return None
        iv = init.targets[0].id
        step = loop.body[-1]
        if not (isinstance(step, ast.AugAssign) and isinstance(step.target, ast.Name) and step.target.id == iv and isinstance(step.value, ast.Constant) and step.value.value == 1):
            return None
        def is_len(e):
            return isinstance(e, ast.Call) and isinstance(e.func, ast.Name) and e.func.id == "len" and len(e.args) == 1 and isinstance(e.args[0], ast.Name) and e.args[0].id
        down = (isinstance(step.op, ast.Sub) and isinstance(loop.test.ops[0], ast.GtE) and isinstance(loop.test.comparators[0], ast.Constant) and loop.test.comparators[0].value == 0
                and isinstance(init.value, ast.BinOp) and isinstance(init.value.op, ast.Sub) and isinstance(init.value.right, ast.Constant) and init.value.right.value == 1 and is_len(init.value.left))
        up = (isinstance(step.op, ast.Add) and isinstance(loop.test.ops[0], ast.Lt) and is_len(loop.test.comparators[0]) and isinstance(init.value, ast.Constant) and init.value.value == 0)
        seq = is_len(init.value.left) if down else (is_len(loop.test.comparators[0]) if up else None)
        if not seq:
            return None
        body = loop.body[:-1]
        uses = 0
        for b in body:
            for x in ast.walk(b):
                if isinstance(x, (ast.Continue, ast.Break, ast.FunctionDef, ast.Lambda)):
                    return None
                if isinstance(x, ast.Name) and x.id == seq and not isinstance(x.ctx, ast.Load):
                    return None
                if isinstance(x, ast.Attribute) and isinstance(x.value, ast.Name) and x.value.id == seq:
                    return None  # seq.method(...) may mutate it
                if isinstance(x, ast.Subscript) and isinstance(x.value, ast.Name) and x.value.id == seq:
                    if not (isinstance(x.slice, ast.Name) and x.slice.id == iv and isinstance(x.ctx, ast.Load)):
                        return None
                    uses += 1
        # i: the init, the test, the step (2 = target only), and the subscripts - nothing else, in particular nothing after the loop
        total = self._names.get(iv, 0)
        if uses == 0 or total != 1 + 1 + 1 + uses:
            return None
        fresh = f"{seq}_item"
        if fresh in self._names:
            return None

        class Sub(ast.NodeTransformer):
            def visit_Subscript(self2, x):
                if isinstance(x.value, ast.Name) and x.value.id == seq and isinstance(x.slice, ast.Name) and x.slice.id == iv:
                    return ast.copy_location(ast.Name(id=fresh, ctx=ast.Load()), x)
                return self2.generic_visit(x)

        body = [Sub().visit(b) for b in body]
        it = ast.Name(id=seq, ctx=ast.Load())
        if down:
            it = ast.Call(func=ast.Name(id="reversed", ctx=ast.Load()), args=[it], keywords=[])
        return ast.copy_location(ast.For(target=ast.Name(id=fresh, ctx=ast.Store()), iter=it, body=body, orelse=[], type_comment=None), loop)


def _pinned_functions():
    path = os.path.join(os.path.dirname(os.path.abspath(__file__)), "pinned_functions.txt")
    try:
        with open(path) as f:
            return {l.strip() for l in f if l.strip() and not l.startswith("#")}
    except OSError:
        return None


def _inline_extracted_procedures(trees):
    """A *new* private procedure (a function that is not in the pinned tree's function list) with one call site is read as its body
    at that site: `self._h(a, b)` / `_h(a, b)` as an expression statement, in a method of the same class / a function of the same
    module, where the procedure has plain positional parameters, no decorator, no return/yield/nested def/global, the arguments
    are names, attribute chains or constants, its name occurs nowhere else in the package, and its locals do not collide with the
    caller's names.  Extracting a block into a helper is then invisible to the rules (the helper is removed from the module).
    trees: {module name: ast.Module}; modified in place."""
    import copy

    pinned = _pinned_functions()
    if pinned is None:
        return
    occurrences = {}
    for tree in trees.values():
        for x in ast.walk(tree):
            n = x.attr if isinstance(x, ast.Attribute) else x.id if isinstance(x, ast.Name) else x.name if isinstance(x, (ast.FunctionDef, ast.AsyncFunctionDef)) else None
            if n and n.startswith("_") and not n.startswith("__"):
                occurrences[n] = occurrences.get(n, 0) + 1
            elif isinstance(x, ast.Constant) and isinstance(x.value, str) and x.value.startswith("_") and x.value.isidentifier():
                occurrences[x.value] = occurrences.get(x.value, 0) + 1
            elif isinstance(x, ast.alias) and x.name.startswith("_"):
                occurrences[x.name] = occurrences.get(x.name, 0) + 1

    def pure(e):
        return _Canon._pure(e)

    def candidates(owner_body, prefix, is_class):
        for fn in list(owner_body):
            if not isinstance(fn, ast.FunctionDef) or not fn.name.startswith("_") or fn.name.startswith("__"):
                continue
            if f"{prefix}.{fn.name}" in pinned or occurrences.get(fn.name, 0) != 2 or fn.decorator_list:
                continue
            a = fn.args
            if a.vararg or a.kwarg or a.kwonlyargs or a.defaults or a.posonlyargs:
                continue
            params = [x.arg for x in a.args]
            if is_class:
                if not params or params[0] != "self":
                    continue
                params = params[1:]
            if any(isinstance(x, (ast.Return, ast.Yield, ast.YieldFrom, ast.FunctionDef, ast.AsyncFunctionDef, ast.Lambda, ast.Global, ast.Nonlocal, ast.ClassDef, ast.Await)) for b in fn.body for x in ast.walk(b)):
                continue
            yield fn, params

    def try_inline(owner_body, prefix, is_class):
        for fn, params in candidates(owner_body, prefix, is_class):
            site = None
            for caller in owner_body:
                if caller is fn or not isinstance(caller, (ast.FunctionDef, ast.AsyncFunctionDef)):
                    continue
                for parent in ast.walk(caller):
                    for f in ("body", "orelse", "finalbody"):
                        blk = getattr(parent, f, None)
                        if not (isinstance(blk, list) and blk and isinstance(blk[0], ast.stmt)):
                            continue
                        for i, st in enumerate(blk):
                            if not (isinstance(st, ast.Expr) and isinstance(st.value, ast.Call)):
                                continue
                            c = st.value
                            hit = (isinstance(c.func, ast.Attribute) and c.func.attr == fn.name and isinstance(c.func.value, ast.Name) and c.func.value.id == "self") if is_class else (isinstance(c.func, ast.Name) and c.func.id == fn.name)
                            if hit:
                                site = (caller, parent, blk, i, c)
            if site is None:
                continue
            caller, parent, blk, i, c = site
            if isinstance(parent, (ast.FunctionDef, ast.AsyncFunctionDef)) and parent is not caller:
                continue
            if any(isinstance(x, (ast.FunctionDef, ast.AsyncFunctionDef, ast.Lambda)) and x is not caller and any(y is c for y in ast.walk(x)) for x in ast.walk(caller)):
                continue
            if any(isinstance(x, ast.Starred) for x in c.args) or any(k.arg is None or k.arg not in params for k in c.keywords) or len(c.args) + len(c.keywords) != len(params):
                continue
            bound = dict(zip(params, c.args))
            bound.update({k.arg: k.value for k in c.keywords})
            if len(bound) != len(params) or not all(pure(v) for v in bound.values()):
                continue
            caller_names = {x.id for x in ast.walk(caller) if isinstance(x, ast.Name)} | {x.arg for x in ast.walk(caller) if isinstance(x, ast.arg)}
            stored = {x.id for b in fn.body for x in ast.walk(b) if isinstance(x, ast.Name) and not isinstance(x.ctx, ast.Load)}
            stored |= {x.name for b in fn.body for x in ast.walk(b) if isinstance(x, ast.ExceptHandler) and x.name}
            if stored & set(params):
                continue
            # a local of the procedure that is also a name of the caller gets a fresh name (the two were different variables)
            rename = {}
            for n in sorted(stored & caller_names):
                k = 1
                while f"{n}_{k}" in caller_names or f"{n}_{k}" in stored:
                    k += 1
                rename[n] = f"{n}_{k}"
            # a parameter is replaced by its (pure) argument; an argument that is a bare name equal to the parameter needs nothing
            arg_names = {x.id for v in bound.values() for x in ast.walk(v) if isinstance(x, ast.Name)}
            if arg_names & stored:
                continue

            class Sub(ast.NodeTransformer):
                def visit_Name(self2, x):
                    if x.id in bound and isinstance(x.ctx, ast.Load):
                        return ast.copy_location(copy.deepcopy(bound[x.id]), x)
                    if x.id in rename:
                        x.id = rename[x.id]
                    return x

                def visit_ExceptHandler(self2, x):
                    if x.name in rename:
                        x.name = rename[x.name]
                    return self2.generic_visit(x)

            body = [Sub().visit(copy.deepcopy(b)) for b in fn.body]
            body = [b for b in body if not (isinstance(b, ast.Expr) and isinstance(b.value, ast.Constant) and isinstance(b.value.value, str))] or [ast.copy_location(ast.Pass(), c)]
            blk[i:i + 1] = body
            owner_body.remove(fn)

    for name, tree in trees.items():
        try_inline(tree.body, name, False)
        for node in tree.body:
            if isinstance(node, ast.ClassDef):
                try_inline(node.body, f"{name}.{node.name}", True)


def _canonicalise(tree):
    tree = _Canon().visit(tree)
    tree = _CanonFn().visit(tree)
    tree = _InlineTemps().visit(tree)
    return ast.fix_missing_locations(tree)

class Index:
    def __init__(self, repo=None, overlay=None):
        self.repo = repo or REPO
        self.overlay = overlay or {}
        self.modules = {}
        self.classes = {}
        self.functions = {}
        self._by_node = {}
        self._load()
        self._link()

    # ------------------------------------------------------------------ load
    def _load(self):
        root = os.path.join(self.repo, PKG)
        if not os.path.isdir(root):
            raise AnalysisError("index", f"{root} is not a directory")
        raw = {}
        for dirpath, dirnames, filenames in os.walk(root):
            dirnames[:] = sorted(d for d in dirnames if d != "__pycache__")
            for fn in sorted(filenames):
                if not fn.endswith(".py"):
                    continue
                path = os.path.join(dirpath, fn)
                rel = os.path.relpath(path, self.repo)
                if rel in self.overlay:
                    src = self.overlay[rel]
                else:
                    with open(path, encoding="utf-8") as f:
                        src = f.read()
                try:
                    tree = ast.parse(src, filename=rel)
                except SyntaxError as exc:
                    raise AnalysisError("index", f"{rel} does not parse: {exc}")
                parts = rel[:-3].split(os.sep)
                if parts[-1] == "__init__":
                    parts = parts[:-1]
                name = ".".join(parts)
                raw[name] = (rel, src, tree)
        _inline_extracted_procedures({n: t for n, (_, _, t) in raw.items()})
        for name, (rel, src, tree) in raw.items():
            self.modules[name] = ModuleInfo(name, rel, src, _canonicalise(tree))
        for mod in self.modules.values():
            self._scan_module(mod)

    def _scan_module(self, mod):
        pkg_parts = mod.name.split(".") if mod.is_pkg else mod.name.split(".")[:-1]
        for node in ast.walk(mod.tree):
            # imports anywhere in the module (function-level imports included)
            if isinstance(node, ast.Import):
                for al in node.names:
                    if al.asname:
                        mod.imports[al.asname] = al.name
                    else:
                        mod.imports[al.name.split(".")[0]] = al.name.split(".")[0]
            elif isinstance(node, ast.ImportFrom):
                if node.level:
                    base = pkg_parts[: len(pkg_parts) - (node.level - 1)]
                    src = ".".join(base + ([node.module] if node.module else []))
                else:
                    src = node.module or ""
                for al in node.names:
                    mod.imports[al.asname or al.name] = f"{src}.{al.name}" if src else al.name
        for node in mod.tree.body:
            self._scan_stmt(mod, node, None, None, mod.name)

    def _scan_stmt(self, mod, node, cls, parent, prefix):
        if isinstance(node, (ast.FunctionDef, ast.AsyncFunctionDef)):
            qual = f"{prefix}.{node.name}"
            fi = FuncInfo(qual, node.name, mod, cls, node, parent)
            if cls is not None and parent is None:
                if fi.kind == "setter":
                    cls.setters[node.name] = fi
                else:
                    cls.methods[node.name] = fi
            elif parent is None:
                mod.functions[node.name] = fi
            if fi.kind == "setter":
                qual = qual + "$setter"
                fi.qual = qual
            self.functions[qual] = fi
            self._by_node[node] = fi
            for sub in ast.walk(node):
                if sub is not node and isinstance(sub, (ast.FunctionDef, ast.AsyncFunctionDef)):
                    # nested functions are indexed flat under the parent (one level is enough here)
                    q2 = f"{qual}.<locals>.{sub.name}"
                    if q2 not in self.functions:
                        f2 = FuncInfo(q2, sub.name, mod, cls, sub, fi)
                        self.functions[q2] = f2
                        self._by_node[sub] = f2
        elif isinstance(node, ast.ClassDef):
            qual = f"{prefix}.{node.name}"
            ci = ClassInfo(qual, node.name, mod, node)
            self.classes[qual] = ci
            if cls is None:
                mod.classes[node.name] = ci
            for sub in node.body:
                if isinstance(sub, ast.Assign):
                    for t in sub.targets:
                        if isinstance(t, ast.Name):
                            ci.class_vars[t.id] = sub.value
                elif isinstance(sub, ast.AnnAssign) and isinstance(sub.target, ast.Name):
                    ci.ann_fields[sub.target.id] = sub.annotation
                    if sub.value is not None:
                        ci.ann_values[sub.target.id] = sub.value
                        ci.class_vars[sub.target.id] = sub.value
                else:
                    self._scan_stmt(mod, sub, ci, None, qual)
        elif isinstance(node, ast.Assign) and cls is None and parent is None:
            for t in node.targets:
                if isinstance(t, ast.Name):
                    mod.consts[t.id] = node.value
        elif isinstance(node, (ast.If, ast.Try)) and cls is None and parent is None:
            for sub in ast.iter_child_nodes(node):
                if isinstance(sub, ast.stmt):
                    self._scan_stmt(mod, sub, cls, parent, prefix)

    def _link(self):
        for ci in self.classes.values():
            for b in ci.base_exprs:
                d = dotted(b)
                if d is None and isinstance(b, ast.Call):
                    d = dotted(b.func)  # namedtuple("X", ...) base
                    if d:
                        d = self.resolve_in(ci.module, d) or d
                        ci.bases.append(d)
                        if d.endswith("namedtuple") and len(b.args) >= 2:
                            ci.namedtuple_fields = _nt_fields(b.args[1])
                    continue
                if d:
                    ci.bases.append(self.resolve_in(ci.module, d) or d)

    # --------------------------------------------------------------- resolve
    def resolve_in(self, mod, name):
        """Resolve a dotted name used inside module `mod` to a dotted target."""
        head, _, rest = name.partition(".")
        if head in mod.classes:
            tgt = mod.classes[head].qual
        elif head in mod.functions:
            tgt = mod.functions[head].qual
        elif head in mod.imports:
            tgt = mod.imports[head]
        elif head in mod.consts:
            tgt = f"{mod.name}.{head}"
        else:
            return None
        full = f"{tgt}.{rest}" if rest else tgt
        return self.canonical(full)

    def canonical(self, dotted_name, depth=0):
        """Chase re-exports: jade.models.ClusterConfig -> jade.models.cluster_config.ClusterConfig."""
        if depth > 8:
            return dotted_name
        if dotted_name in self.classes or dotted_name in self.functions or dotted_name in self.modules:
            return dotted_name
        parts = dotted_name.split(".")
        for i in range(len(parts) - 1, 0, -1):
            modname = ".".join(parts[:i])
            if modname in self.modules:
                mod = self.modules[modname]
                head = parts[i]
                rest = parts[i + 1:]
                if head in mod.classes:
                    tgt = mod.classes[head].qual
                elif head in mod.functions:
                    tgt = mod.functions[head].qual
                elif head in mod.imports and mod.imports[head] != dotted_name:
                    tgt = mod.imports[head]
                else:
                    return dotted_name
                full = ".".join([tgt] + rest)
                if full == dotted_name:
                    return full
                return self.canonical(full, depth + 1)
        return dotted_name

    # ------------------------------------------------------------------ MRO
    def mro(self, cls):
        out, seen = [], set()

        def rec(c):
            if c.qual in seen:
                return
            seen.add(c.qual)
            out.append(c)
            for b in c.bases:
                if b in self.classes:
                    rec(self.classes[b])

        rec(cls)
        return out

    def subclasses(self, cls, strict=False):
        out = []
        for c in self.classes.values():
            if c is cls and strict:
                continue
            if cls in self.mro(c):
                out.append(c)
        return out

    def is_subclass(self, c, base_qual):
        return any(x.qual == base_qual for x in self.mro(c))

    def lookup_method(self, cls, name):
        for c in self.mro(cls):
            if name in c.methods:
                return c.methods[name]
        return None

    def class_members(self, cls):
        """All statically known members of cls (methods, properties, fields, self.x stores)."""
        members = set()
        for c in self.mro(cls):
            members.update(c.methods)
            members.update(c.class_vars)
            members.update(c.ann_fields)
            members.update(getattr(c, "namedtuple_fields", ()))
            for m in list(c.methods.values()) + list(c.setters.values()):
                for n in ast.walk(m.node):
                    if (
                        isinstance(n, ast.Attribute)
                        and isinstance(n.ctx, ast.Store)
                        and isinstance(n.value, ast.Name)
                        and m.params
                        and n.value.id == m.params[0]
                    ):
                        members.add(n.attr)
        return members

    def has_external_base(self, cls):
        for c in self.mro(cls):
            for b in c.bases:
                if b not in self.classes and b not in ("object", "abc.ABC"):
                    return True
        return False

    # --------------------------------------------------------------- lookup
    def find_class(self, spec, rule="index"):
        hits = [c for q, c in self.classes.items() if q == spec or q.endswith("." + spec)]
        if len(hits) != 1:
            raise AnalysisError(rule, f"class anchor '{spec}' matches {len(hits)} classes")
        return hits[0]

    def find_func(self, spec, rule="index"):
        hits = [f for q, f in self.functions.items() if q == spec or q.endswith("." + spec)]
        if len(hits) != 1:
            raise AnalysisError(rule, f"function anchor '{spec}' matches {len(hits)} functions")
        return hits[0]

    def try_func(self, spec):
        hits = [f for q, f in self.functions.items() if q == spec or q.endswith("." + spec)]
        return hits[0] if len(hits) == 1 else None

    def func_of_node(self, node):
        return self._by_node.get(node)

    def all_functions(self):
        return list(self.functions.values())


def _nt_fields(node):
    if isinstance(node, ast.Constant) and isinstance(node.value, str):
        return [x for x in node.value.replace(",", " ").split() if x]
    if isinstance(node, (ast.List, ast.Tuple)):
        return [e.value for e in node.elts if isinstance(e, ast.Constant)]
    return []

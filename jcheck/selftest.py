"""Sensitivity self-test of the rules on in-memory overlays of the *current* sources.

Breaking edits: for every rule at least one registered edit (delete the guarded statement, flip a
comparison, drop a call, swap two effects, remove a table entry, reroute an argument) must make
that rule report VIOLATION. Benign edits (rename a local, insert logging, reorder independent
statements, equivalent rewrites) must leave the whole property PROVED (exit 0).

An edit whose pattern no longer occurs exactly once in the tree is skipped and counted. A rule
that misses its breaking edit, or an alarm / analysis error on a benign edit, fails the self-test.
No scratch copy touches the disk.
"""

import os
import sys
import time
from concurrent.futures import ProcessPoolExecutor

from . import REPO

HS = "jade/hpc/hpc_submitter.py"
CL = "jade/jobs/cluster.py"
JS = "jade/jobs/job_submitter.py"
JQ = "jade/jobs/job_queue.py"
AC = "jade/jobs/async_cli_command.py"
RA = "jade/jobs/results_aggregator.py"
JR = "jade/jobs/job_runner.py"
TS = "jade/cli/try_submit_jobs.py"
RS = "jade/cli/resubmit_jobs.py"
CJ = "jade/cli/cancel_jobs.py"
RJ = "jade/cli/run_jobs.py"
SS = "jade/cli/show_status.py"
HM = "jade/hpc/hpc_manager.py"
SM = "jade/hpc/slurm_manager.py"
RC = "jade/utils/run_command.py"
JC = "jade/jobs/job_configuration.py"
PM = "jade/jobs/pipeline_manager.py"
RE = "jade/result.py"
EV = "jade/events.py"
RM = "jade/resource_monitor.py"
GP = "jade/extensions/generic_command/generic_command_parameters.py"
GE = "jade/extensions/generic_command/generic_command_execution.py"
SP = "jade/models/submitter_params.py"
HP = "jade/models/hpc.py"
JN = "jade/jobs/job_container_by_name.py"

MUTANTS = []
BENIGN = []


def M(mid, prop, rule, file, old, new, note=""):
    MUTANTS.append({"id": mid, "prop": prop, "rule": rule, "edits": [(file, old, new)], "note": note})


def M2(mid, prop, rule, edits, note=""):
    MUTANTS.append({"id": mid, "prop": prop, "rule": rule, "edits": edits, "note": note})


def B(mid, props, file, old, new, note=""):
    BENIGN.append({"id": mid, "props": props if isinstance(props, (list, tuple)) else [props], "edits": [(file, old, new)], "note": note})


def _patch_edits(relpath):
    """Unified diff (kept under /verif) -> [(file, old block, new block)] per hunk."""
    here = os.path.dirname(os.path.dirname(os.path.abspath(__file__)))
    edits, cur, old, new = [], None, [], []

    def flush():
        if cur is not None and (old or new) and old != new:
            edits.append((cur, "".join(old), "".join(new)))

    with open(os.path.join(here, relpath), encoding="utf-8") as f:
        for line in f:
            if line.startswith("+++ b/"):
                flush()
                cur, old, new = line[6:].strip(), [], []
            elif line.startswith("@@"):
                flush()
                old, new = [], []
            elif line.startswith(("diff ", "index ", "--- ", "\\")):
                continue
            elif cur is not None and line[:1] in " -+":
                if line[0] in " -":
                    old.append(line[1:])
                if line[0] in " +":
                    new.append(line[1:])
    flush()
    return edits


def MP(mid, prop, rule, patch, note=""):
    """Breaking edit taken from a kept seeded change (/verif/seeded/<id>/patch.diff)."""
    MUTANTS.append({"id": mid, "prop": prop, "rule": rule, "edits": _patch_edits(patch), "note": note or f"from {patch}"})


def BP(mid, props, patch, note=""):
    """Benign edit taken from the benign corpus (/verif/benign/*.diff)."""
    BENIGN.append({"id": mid, "props": props if isinstance(props, (list, tuple)) else [props], "edits": _patch_edits(patch), "note": note or f"from {patch}"})


from . import mutants as _m  # noqa: E402,F401  (fills MUTANTS / BENIGN)


def _apply(edits):
    overlay = {}
    for file, old, new in edits:
        src = overlay.get(file)
        if src is None:
            with open(os.path.join(REPO, file), encoding="utf-8") as f:
                src = f.read()
        if src.count(old) != 1:
            return None, f"pattern occurs {src.count(old)}x in {file}"
        overlay[file] = src.replace(old, new)
    # must still compile
    for file, src in overlay.items():
        try:
            compile(src, file, "exec")
        except SyntaxError as exc:
            return None, f"edit does not compile: {exc}"
    return overlay, None


def _run_mutant(m):
    from .cli import check_property

    overlay, why = _apply(m["edits"])
    if overlay is None:
        return m["id"], "SKIP", why
    code, outcomes = check_property(m["prop"], "quick", 0, overlay=overlay, quiet=True, write=False)
    byrule = {o.rd.id: o for o in outcomes}
    o = byrule.get(m["rule"])
    if o is None:
        return m["id"], "FAIL", f"rule {m['rule']} not run"
    if o.verdict == "VIOLATION":
        keys = "; ".join(f["key"] for f in o.findings[:2])
        return m["id"], "OK", keys
    return m["id"], "FAIL", f"rule {m['rule']} verdict {o.verdict} ({o.error or 'no finding'}); others: " + ", ".join(f"{x.rd.id}={x.verdict}" for x in outcomes if x.verdict != "PROVED")


def _run_benign(b):
    from .cli import check_property

    overlay, why = _apply(b["edits"])
    if overlay is None:
        return b["id"], "SKIP", why
    bad = []
    for p in b["props"]:
        code, outcomes = check_property(p, "quick", 0, overlay=overlay, quiet=True, write=False)
        for o in outcomes:
            if o.verdict != "PROVED":
                bad.append(f"{o.rd.id}={o.verdict}:{(o.error or (o.findings[0]['key'] if o.findings else ''))[:80]}")
    return b["id"], ("OK" if not bad else "FAIL"), "; ".join(bad)


def run(props=None, jobs=None, verbose=True):
    """Returns dict with counts and lists; props restricts to mutants / benign edits of those properties."""
    ms = [m for m in MUTANTS if props is None or m["prop"] in props]
    bs = [b for b in BENIGN if props is None or set(b["props"]) & set(props)]
    if props is not None:
        bs = [dict(b, props=[p for p in b["props"] if p in props]) for b in bs]
    jobs = jobs or min(16, os.cpu_count() or 4)
    start = time.time()
    with ProcessPoolExecutor(max_workers=jobs) as ex:
        rm = list(ex.map(_run_mutant, ms, chunksize=2))
        rb = list(ex.map(_run_benign, bs, chunksize=2))
    res = {
        "breaking_total": len(ms), "breaking_ok": sum(1 for r in rm if r[1] == "OK"), "breaking_skipped": [r for r in rm if r[1] == "SKIP"], "breaking_failed": [r for r in rm if r[1] == "FAIL"],
        "benign_total": len(bs), "benign_ok": sum(1 for r in rb if r[1] == "OK"), "benign_skipped": [r for r in rb if r[1] == "SKIP"], "benign_failed": [r for r in rb if r[1] == "FAIL"],
        "wall_s": round(time.time() - start, 2), "details": rm, "benign_details": rb,
    }
    return res


def rules_covered(props=None):
    cov = {}
    for m in MUTANTS:
        if props is None or m["prop"] in props:
            cov.setdefault(m["rule"], []).append(m["id"])
    return cov


def main(prop=None):
    props = [prop.upper()] if prop else None
    res = run(props)
    for r in res["details"]:
        if r[1] != "OK":
            print(f"  breaking {r[0]:40s} {r[1]:5s} {r[2]}")
    for r in res["benign_details"]:
        if r[1] != "OK":
            print(f"  benign   {r[0]:40s} {r[1]:5s} {r[2]}")
    print(f"self-test: breaking {res['breaking_ok']}/{res['breaking_total']} detected, {len(res['breaking_skipped'])} skipped, {len(res['breaking_failed'])} missed; "
          f"benign {res['benign_ok']}/{res['benign_total']} silent, {len(res['benign_skipped'])} skipped, {len(res['benign_failed'])} alarmed; {res['wall_s']}s")
    if res["breaking_failed"] or res["benign_failed"]:
        print("ANALYSIS-ERROR property=selftest rule=- reason=rules failed their self-test")
        return 2
    return 0


if __name__ == "__main__":
    sys.exit(main(sys.argv[1] if len(sys.argv) > 1 else None))

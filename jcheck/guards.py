"""Guard sets: the atomic conditions (with polarity) that hold on every path to a node.

G(n) contains (key, pol) iff every entry->n path takes an edge labelled
(key, pol) and, after the last such edge, passes no node that may change the
truth of the condition ("kill": rebinding of a mentioned name, store to a
mentioned attribute chain, or a not-known-pure call on / with a mentioned
object). Decided by reachability in the product of the CFG with a 1-bit
"currently guarded" flag: n is guarded iff (n, unguarded) is unreachable.
"""

import ast

from .cfg import ALL_KINDS, NORMAL_KINDS, ReachingDefs, iter_own
from .index import dotted

PURE_PREFIXES = ("is_", "has_", "get_", "iter_", "list_", "am_i_", "are_", "check_")
PURE_METHODS = {
    "exists", "items", "values", "keys", "intersection", "issubset", "issuperset", "difference",
    "union", "format", "join", "startswith", "endswith", "lower", "upper", "strip", "split",
    "info", "debug", "warning", "warn", "error", "exception", "critical", "copy", "get", "index",
    "count", "isfile", "isdir", "dict", "json", "serialize", "search", "match", "group",
}
PURE_FUNCS = {
    "len", "str", "int", "float", "bool", "print", "isinstance", "sorted", "set", "list", "tuple",
    "dict", "repr", "hash", "min", "max", "sum", "any", "all", "enumerate", "zip", "range",
    "reversed", "iter", "next", "getattr", "hasattr", "type", "id", "frozenset", "abs",
}
LOGGER_ROOTS = {"logger", "logging", "log"}


def unparse(e):
    try:
        return ast.unparse(e)
    except Exception:  # pragma: no cover
        return ast.dump(e)


def canon(expr, pol=True):
    """Canonical (key, polarity, expr) of an atomic condition."""
    e = expr
    while isinstance(e, ast.UnaryOp) and isinstance(e.op, ast.Not):
        e, pol = e.operand, not pol
    if isinstance(e, ast.Compare) and len(e.ops) == 1:
        op, a, b = e.ops[0], e.left, e.comparators[0]
        neg = {ast.NotEq: ast.Eq, ast.IsNot: ast.Is, ast.NotIn: ast.In}
        for k, v in neg.items():
            if isinstance(op, k):
                e = ast.Compare(left=a, ops=[v()], comparators=[b])
                pol = not pol
                op = e.ops[0]
                break
        if isinstance(op, ast.GtE):  # a >= b  ==  not (a < b)
            e, pol = ast.Compare(left=a, ops=[ast.Lt()], comparators=[b]), not pol
        elif isinstance(op, ast.Gt):  # a > b  ==  b < a
            e = ast.Compare(left=b, ops=[ast.Lt()], comparators=[a])
        elif isinstance(op, ast.LtE):  # a <= b ==  not (b < a)
            e, pol = ast.Compare(left=b, ops=[ast.Lt()], comparators=[a]), not pol
        # len(x) == 0  ~  not x ;  len(x) > 0 / != 0 ~ x
        op = e.ops[0]
        a, b = e.left, e.comparators[0]
        if isinstance(op, ast.Eq):
            for x, y in ((a, b), (b, a)):
                if _is_len(x) and isinstance(y, ast.Constant) and y.value == 0:
                    return canon(x.args[0], not pol)
        if isinstance(op, ast.Lt) and isinstance(a, ast.Constant) and a.value == 0 and _is_len(b):
            return canon(b.args[0], pol)
    if isinstance(e, ast.Call) and isinstance(e.func, ast.Name) and e.func.id == "bool" and len(e.args) == 1:
        return canon(e.args[0], pol)
    if _is_len(e):
        return canon(e.args[0], pol)
    return unparse(e), pol, e


def _is_len(e):
    return isinstance(e, ast.Call) and isinstance(e.func, ast.Name) and e.func.id == "len" and len(e.args) == 1


def chains(expr):
    """Root names and *maximal* attribute chains read by an expression. For a method call
    `a.b.m()` the receiver chain `a.b` is included as well (a store to a.b.x may change the
    result of the call), for a plain attribute load `a.b.c` only `a.b.c` itself."""
    roots, chs = set(), set()
    inner = set()
    for n in iter_own(expr):
        if isinstance(n, ast.Attribute):
            inner.add(id(n.value))
    for n in iter_own(expr):
        if isinstance(n, ast.Name):
            roots.add(n.id)
        if isinstance(n, (ast.Attribute, ast.Name)) and id(n) not in inner:
            d = dotted(n)
            if d:
                chs.add(d)
        if isinstance(n, ast.Call) and isinstance(n.func, ast.Attribute):
            d = dotted(n.func.value)
            if d:
                chs.add(d)
    return roots, chs


def is_pure_call(call):
    f = call.func
    if isinstance(f, ast.Name):
        return f.id in PURE_FUNCS
    if isinstance(f, ast.Attribute):
        root = f
        while isinstance(root, ast.Attribute):
            root = root.value
        if isinstance(root, ast.Name) and root.id in LOGGER_ROOTS:
            return True
        if f.attr in PURE_METHODS or f.attr.startswith(PURE_PREFIXES):
            return True
    return False


def node_kills(cfg, node, roots, chs, local_scalar_only=False, self_writes=None):
    """May executing `node` change the truth of a condition over (roots, chains)?"""
    for r in cfg.own_ast(node):
        if isinstance(r, (ast.FunctionDef, ast.AsyncFunctionDef, ast.ClassDef)):
            if r.name in roots:
                return True
            continue
        for n in iter_own(r):
            if isinstance(n, ast.Name) and isinstance(n.ctx, (ast.Store, ast.Del)) and n.id in roots:
                return True
            if isinstance(n, (ast.Attribute, ast.Subscript)) and isinstance(n.ctx, (ast.Store, ast.Del)):
                tgt = n.value if isinstance(n, ast.Subscript) else n
                d = dotted(tgt)
                if d and any(c == d or c.startswith(d + ".") or d.startswith(c + ".") for c in chs):
                    return True
            if isinstance(n, ast.Call) and not local_scalar_only and not is_pure_call(n):
                f = n.func
                if isinstance(f, ast.Attribute) and self_writes is not None and isinstance(f.value, ast.Name) and f.value.id in ("self", "cls"):
                    # self.m(...): consult the callee's (transitive) self-attribute write summary
                    w = self_writes(n)
                    if w is not None:
                        hit = False
                        for c in chs:
                            parts = c.split(".")
                            if parts[0] == f.value.id and len(parts) > 1 and (parts[1] in w or "*" in w):
                                hit = True
                        if hit:
                            return True
                        for a in list(n.args) + [k.value for k in n.keywords]:
                            d = dotted(a)
                            if d and d not in ("self", "cls") and any(c == d or c.startswith(d + ".") for c in chs):
                                return True
                        continue
                if isinstance(f, ast.Attribute):
                    d = dotted(f.value)
                    if d and any(c == d or c.startswith(d + ".") or d.startswith(c + ".") for c in chs if c not in ("self", "cls")):
                        return True
                for a in list(n.args) + [k.value for k in n.keywords]:
                    d = dotted(a)
                    if d and d not in ("self", "cls") and any(c == d or c.startswith(d + ".") for c in chs):
                        return True
    if node.kind == "except" and node.ast.name and node.ast.name in roots:
        return True
    return False


class Guards:
    def __init__(self, cfg, params=(), kinds=ALL_KINDS, kill=True, self_writes=None):
        """kill=False gives plain edge-dominance: "the test was evaluated with this outcome on
        every path to n" (used for check-then-act rules where the act itself changes the
        tested state, e.g. version check -> version increment -> write)."""
        self.cfg = cfg
        self.kinds = kinds
        self.kill = kill
        self.self_writes = self_writes
        self.rd = ReachingDefs(cfg, params)
        self.labels = {}  # key -> (expr, roots, chains)
        self.origin = {}  # key -> (test node, original condition expr) of one occurrence
        for n in cfg.nodes:
            for d, k, c in n.succ:
                if k in ("T", "F") and c is not None:
                    key, pol, e = canon(c, k == "T")
                    if key not in self.labels:
                        roots, chs = chains(e)
                        self.labels[key] = (e, roots, chs)
                        self.origin[key] = (n, c)
        self._cache = {}
        # a guard on an alias (`b = x.f(); if b:`) is also killed by what changes x.f()
        for key, (e, roots, chs) in list(self.labels.items()):
            tnode = self.origin[key][0]
            ex = self.expand_deep(e, tnode)
            if ex is not e:
                _, chs2 = chains(ex)
                self.labels[key] = (e, roots, set(chs) | chs2)

    def expand_deep(self, e, at_node):
        """Alias expansion inside comparisons / arithmetic (new parent nodes, original leaves)."""
        if isinstance(e, ast.Name):
            return self.expand(e, at_node)
        if isinstance(e, ast.Compare):
            l = self.expand_deep(e.left, at_node)
            cs = [self.expand_deep(c, at_node) for c in e.comparators]
            if l is e.left and all(a is b for a, b in zip(cs, e.comparators)):
                return e
            return ast.Compare(left=l, ops=e.ops, comparators=cs)
        if isinstance(e, ast.BinOp):
            l, rr = self.expand_deep(e.left, at_node), self.expand_deep(e.right, at_node)
            if l is e.left and rr is e.right:
                return e
            return ast.BinOp(left=l, op=e.op, right=rr)
        if isinstance(e, ast.UnaryOp):
            o = self.expand_deep(e.operand, at_node)
            return e if o is e.operand else ast.UnaryOp(op=e.op, operand=o)
        return e

    def _unguarded_set(self, key, pol):
        """ids of nodes reachable in state 'not guarded by (key,pol)'."""
        ck = (key, pol)
        if ck in self._cache:
            return self._cache[ck]
        e, roots, chs = self.labels[key]
        has_call = any(isinstance(x, ast.Call) for x in iter_own(e))
        only_names = all("." not in c for c in chs) and not has_call
        kill = {}
        start = (self.cfg.entry.id, 0)
        seen = {start}
        stack = [start]
        while stack:
            nid, flag = stack.pop()
            n = self.cfg.nodes[nid]
            out_flag = flag
            if flag and self.kill:
                if nid not in kill:
                    kill[nid] = node_kills(self.cfg, n, roots, chs, self_writes=self.self_writes)
                if kill[nid]:
                    out_flag = 0
            for d, k, c in n.succ:
                if k not in self.kinds:
                    continue
                f2 = out_flag
                if k in ("T", "F") and c is not None:
                    k2, p2, _ = canon(c, k == "T")
                    if k2 == key:
                        f2 = 1 if p2 == pol else 0
                st = (d.id, f2)
                if st not in seen:
                    seen.add(st)
                    stack.append(st)
        res = {nid for nid, f in seen if f == 0}
        self._cache[ck] = res
        return res

    def at(self, node):
        """list of (key, pol, expr) guarding `node` (reachable nodes only)."""
        out = []
        for key, (e, _, _) in self.labels.items():
            for pol in (True, False):
                if node.id not in self._unguarded_set(key, pol):
                    out.append((key, pol, e))
        return out

    def holds(self, node, pred):
        """Some guard (key,pol,expr) at node satisfies pred(expr, pol)."""
        for key, pol, e in self.at(node):
            if pred(e, pol):
                return (key, pol)
        return None

    # -- alias expansion -------------------------------------------------
    def expand(self, expr, at_node, depth=2):
        """Substitute single-definition local aliases: `b = x.f(); if b:` -> `x.f()`.

        Only when the alias has one reaching definition at `at_node` and the names its
        value reads have the same reaching definitions at the definition and at `at_node`.
        """
        if depth == 0:
            return expr
        if isinstance(expr, ast.Name):
            ud = self.rd.unique_def(at_node, expr.id)
            if ud is None:
                return expr
            dnode, val = ud
            if not isinstance(val, ast.AST):
                return expr
            roots, _ = chains(val)
            for r in roots:
                if self.rd.reaching(dnode, r) != self.rd.reaching(at_node, r):
                    return expr
            return self.expand(val, dnode, depth - 1)
        return expr

    def describe(self, node):
        return sorted(("" if pol else "not ") + key for key, pol, _ in self.at(node))

"""F9: with the obsolete node_setup_script option written as "" (TOML has no null) the configured
node_setup_command must still run before the jobs of the batch.

The submitter parameters come from a TOML file. TOML has no null, so the unused
(deprecated) node_shutdown_script option is written as an empty string. The
batch runs through the real JobRunner (the code behind `jade-internal run-jobs`).
"""

import toml

from jade.enums import ResourceMonitorType, Status
from jade.extensions.generic_command import (
    GenericCommandConfiguration,
    GenericCommandParameters,
)
from jade.jobs.job_runner import JobRunner
from jade.jobs.results_aggregator import ResultsAggregator
from jade.models import SubmitterParams


HOOK = """#!/bin/bash
echo "$1 OUT=${JADE_RUNTIME_OUTPUT:-unset} GROUP=${JADE_SUBMISSION_GROUP:-unset}" >> "$2"
"""

PARAMS = """
generate_reports = false
resource_monitor_type = "none"
poll_interval = 1
num_processes = 1
node_setup_script = ""

[hpc_config]
hpc_type = "local"

[hpc_config.hpc]
"""


def test_node_setup_command_runs_with_empty_legacy_script(tmp_path, monkeypatch):
    monkeypatch.chdir(tmp_path)
    log = tmp_path / "hooks.log"
    output = tmp_path / "output"
    hook = tmp_path / "hook.sh"
    hook.write_text(HOOK)

    params = SubmitterParams(**toml.loads(PARAMS))
    assert params.node_shutdown_script is None
    assert params.resource_monitor_type == ResourceMonitorType.NONE

    config = GenericCommandConfiguration(
        node_setup_command=f"bash {hook} node_setup {log}",
        node_teardown_command=f"bash {hook} node_teardown {log}",
    )
    for i in range(2):
        config.add_job(GenericCommandParameters(command=f"bash {hook} job{i} {log}"))
    config.assign_default_submission_group(params)

    ResultsAggregator.create(str(output))
    runner = JobRunner(config, str(output), batch_id=1)
    status = runner.run_jobs(distributed_submitter=False, num_parallel_processes_per_node=1)
    assert status == Status.GOOD

    labels = [x.split()[0] for x in log.read_text().splitlines()]
    assert labels[0] == "node_setup"
    assert sorted(labels[1:3]) == ["job0", "job1"]
    assert labels[3:] == ["node_teardown"]

    results = ResultsAggregator.load(str(output)).process_results()
    assert sorted(x.name for x in results) == ["1", "2"]

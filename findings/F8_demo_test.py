"""Demonstration for seeded change C09/a.

History: three single-job batches. The node of batch 1 hits its walltime (no result, HPC job
disappears), job 2 fails, job 3 succeeds. The submitter force-completes the submission. The user
then runs `jade resubmit-jobs OUTPUT --no-missing` (rerun the failed job only).

The persisted status must stay consistent after every step: completed_jobs == number of jobs
marked done, completed <= submitted <= total, submitted == number of jobs submitted or done.

Run with:
    cd /tmp/wt3/C09 && PYTHONPATH=/tmp/wt3/C09 /venv/bin/python -m pytest -q -p no:cacheprovider \
        /tmp/seed3/C09/a/demo_test.py
"""

import logging
import os
from pathlib import Path

import pytest
from click.testing import CliRunner

import jade.hpc.hpc_submitter as hpc_submitter_mod
import jade.jobs.job_submitter as job_submitter_mod
from jade.cli.resubmit_jobs import resubmit_jobs
from jade.enums import JobCompletionStatus, Status
from jade.extensions.generic_command import GenericCommandConfiguration, GenericCommandInputs
from jade.hpc.common import HpcJobStatus, HpcType
from jade.jobs.cluster import Cluster
from jade.jobs.job_submitter import JobSubmitter
from jade.jobs.results_aggregator import ResultsAggregator
from jade.models import FakeHpcConfig, HpcConfig, JobState, SubmitterParams
from jade.result import Result
from jade.utils.utils import load_data


class StubHpc:
    """In-memory stand-in for the SLURM queue (replaces jade.hpc.hpc_manager.HpcManager)."""

    active = {}
    submitted = []
    next_id = 100

    def __init__(self, groups, output):
        pass

    @classmethod
    def reset(cls):
        cls.active = {}
        cls.submitted = []
        cls.next_id = 100

    @property
    def hpc_type(self):
        return HpcType.SLURM

    def submit(self, directory, name, script, group, dry_run=False, **kwargs):
        job_id = str(StubHpc.next_id)
        StubHpc.next_id += 1
        StubHpc.active[job_id] = HpcJobStatus.RUNNING
        StubHpc.submitted.append((job_id, name))
        return job_id, Status.GOOD

    def check_statuses(self):
        return dict(StubHpc.active)

    def cancel_job(self, job_id):
        StubHpc.active.pop(job_id, None)
        return 0


@pytest.fixture
def stub_hpc(monkeypatch):
    StubHpc.reset()
    monkeypatch.setattr(hpc_submitter_mod, "HpcManager", StubHpc)
    monkeypatch.setattr(job_submitter_mod, "HpcManager", StubHpc)
    yield StubHpc
    # The CLI commands attach log files in the output directory; detach them again.
    for name in list(logging.root.manager.loggerDict):
        if name == "event" or name.startswith("jade"):
            log = logging.getLogger(name)
            for handler in list(log.handlers):
                handler.close()
                log.removeHandler(handler)
            log.propagate = True
            log.disabled = False


def make_submission(tmp, num_jobs, blocked_by=None, **params):
    """Equivalent of `jade submit-jobs`: create the config, the cluster and run the first round."""
    tmp = Path(tmp)
    cmd_file = tmp / "commands.txt"
    cmd_file.write_text("\n".join(["echo hello"] * num_jobs) + "\n")
    config = GenericCommandConfiguration()
    for job in GenericCommandInputs(str(cmd_file)).iter_jobs():
        config.add_job(job)
    for name, blockers in (blocked_by or {}).items():
        config.get_job(name).set_blocking_jobs(set(blockers))
    hpc = HpcConfig(hpc_type="fake", hpc=FakeHpcConfig(walltime="1:00:00"))
    params = SubmitterParams(hpc_config=hpc, generate_reports=False, poll_interval=1, **params)
    config.assign_default_submission_group(params)
    output = str(tmp / "output")
    os.makedirs(output)
    mgr = JobSubmitter.create(config, output=output)
    cluster = Cluster.create(output, mgr.config)
    try:
        mgr.submit_jobs(cluster)
    finally:
        cluster.demote_from_submitter()
    return output


def run_round(output):
    """Equivalent of `jade try-submit-jobs OUTPUT`."""
    cluster, promoted = Cluster.deserialize(
        output, try_promote_to_submitter=True, deserialize_jobs=True
    )
    assert promoted
    try:
        if cluster.is_complete():
            return None
        return JobSubmitter.load(output).submit_jobs(cluster)
    finally:
        cluster.demote_from_submitter()


def end_hpc_job(batch_id):
    hpc_id = [x for x, name in StubHpc.submitted if name.endswith(f"_batch_{batch_id}")][0]
    StubHpc.active.pop(hpc_id, None)


def finish_batch(output, batch_id, return_codes=None):
    """The compute node of a batch runs its jobs, records the results and exits."""
    return_codes = return_codes or {}
    for job in load_data(Path(output) / f"config_batch_{batch_id}.json")["jobs"]:
        name = str(job.get("name") or job["job_id"])
        result = Result(name, return_codes.get(name, 0), JobCompletionStatus.FINISHED, 1.0)
        ResultsAggregator.append(output, result, batch_id=batch_id)
    end_hpc_job(batch_id)


def check_persisted_status(output, where):
    cluster, _ = Cluster.deserialize(output, deserialize_jobs=True)
    summary = cluster.get_status_summary(include_jobs=True)
    config = cluster.config
    jobs = summary["job_status"]["jobs"]
    done = [x["name"] for x in jobs if x["state"] == JobState.DONE]
    submitted_or_done = [x["name"] for x in jobs if x["state"] != JobState.NOT_SUBMITTED]
    recorded = {x.name for x in ResultsAggregator.list_results(output)}
    msg = (
        f"{where}: completed={config.completed_jobs} submitted={config.submitted_jobs} "
        f"total={config.num_jobs} done={done} submitted_or_done={submitted_or_done}"
    )
    assert config.completed_jobs <= config.submitted_jobs <= config.num_jobs, msg
    assert config.completed_jobs == len(done), msg
    assert config.submitted_jobs == len(submitted_or_done), msg
    assert summary["completed_jobs"] == len(done), msg
    assert set(done) <= recorded, f"{where}: done jobs without result: {set(done) - recorded}"
    for job in jobs:
        if job["state"] != JobState.NOT_SUBMITTED:
            assert not job["blocked_by"], f"{where}: {job}"
    return cluster


def job_states(cluster):
    return {x.name: x.state.value for x in cluster.job_status.jobs}


def test_resubmit_no_missing_leaves_unsubmitted_dependent(tmp_path, stub_hpc):
    """F8: job 3 waits for job 1 whose batch hits its walltime; job 2 fails.  After the forced completion job 3 is
    still not_submitted.  `resubmit-jobs --no-missing` selects job 2 only; the reset computes
    submitted_jobs = num_jobs - len(selected) = 2, but only job 1 is marked submitted."""
    output = make_submission(tmp_path, 3, blocked_by={"3": ["1"]}, per_node_batch_size=1, try_add_blocked_jobs=False)
    cluster = check_persisted_status(output, "after submit-jobs")
    assert job_states(cluster) == {"1": "submitted", "2": "submitted", "3": "not_submitted"}
    finish_batch(output, 2, return_codes={"2": 1})
    end_hpc_job(1)
    run_round(output)
    cluster = check_persisted_status(output, "after the round that forces completion")
    assert cluster.is_complete()
    assert job_states(cluster) == {"1": "submitted", "2": "done", "3": "not_submitted"}
    result = CliRunner().invoke(resubmit_jobs, [output, "--no-missing"])
    assert result.exit_code == 0, result.output
    cluster = check_persisted_status(output, "after resubmit-jobs --no-missing")

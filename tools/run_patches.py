#!/usr/bin/env python3
"""tools/run_patches.py <patch files...> : run all quick checks on each patch (overlay) and print verdict changes."""
import os, sys
from concurrent.futures import ProcessPoolExecutor
HERE = os.path.dirname(os.path.dirname(os.path.abspath(__file__)))
sys.path.insert(0, HERE)
sys.path.insert(0, os.path.join(HERE, "tools"))

def run(patch):
    from seed_matrix_lib import overlay_of, PROPS
    from jcheck.cli import check_property
    try:
        ov = overlay_of(patch)
    except Exception as exc:
        return patch, [f"patch failed: {exc}"], []
    v, u = [], []
    for p in PROPS:
        code, outcomes = check_property(p, "quick", 0, overlay=ov, quiet=True, write=False)
        if code == 2 and not outcomes:
            u.append(f"{p}: the whole check is an ANALYSIS-ERROR (index / call graph could not be built on this tree)")
        for o in outcomes:
            if o.verdict == "VIOLATION":
                v.append(f"{o.rd.id}: {o.findings[0]['key']} :: {o.findings[0]['message'][:140]}")
            elif o.verdict == "UNKNOWN":
                u.append(f"{o.rd.id}: {(o.error or '')[:160]}")
    return patch, v, u

if __name__ == "__main__":
    with ProcessPoolExecutor(max_workers=8) as ex:
        for patch, v, u in ex.map(run, sys.argv[1:]):
            tag = "ALARM" if v else ("UNKNOWN" if u else "silent")
            print(f"{tag:8s} {patch}")
            for x in v: print("    V", x)
            for x in u: print("    U", x)

#!/usr/bin/env python3
"""Regenerate MANIFEST.json from the rule registry (kept valid at all times).

Properties that have a jcheck/props/cXX.py module are claimed; the others are listed under
not_applicable with the reason given in NOT_APPLICABLE below (or 'not built yet').
"""
import importlib
import json
import os
import sys

HERE = os.path.dirname(os.path.dirname(os.path.abspath(__file__)))
sys.path.insert(0, HERE)

from jcheck.report import PROPERTY_INFO, RULES  # noqa: E402

PROPS = [f"C{i:02d}" for i in range(1, 21)]
NOT_APPLICABLE = {}

TECHNIQUE = {
    "C01": "typestate over the submitter role + value-flow chain placed->persisted + guard dominance in batch construction + ownership",
    "C02": "guard dominance of every launch by an empty-blockers test + value-flow of blocker removal + return-condition analysis",
    "C03": "interprocedural must-pass-through (collect before completion) + single completion funnel (who-may-call)",
    "C04": "sibling agreement of the two cancel loops + constant propagation of canceled return codes + typestate of canceled entries",
    "C05": "dominance ordering of completion effects + typestate of role release + marker pairing",
    "C06": "return-condition analysis of is_full + guard dominance of starts + counting idiom of the poll loop + value-flow of limits",
    "C07": "guard dominance in batch admission + value-flow of the group object to the interface + table agreement with the run-jobs CLI",
    "C08": "lock-context analysis (locked-only writers) + wrapper pairing + append-dominates-delete ordering + lock order",
    "C09": "field ownership (who-may-write) + block pairing + lock-context analysis + dominance grouping of version/data writes",
    "C10": "guard dominance on the submitter field + lock-context + check-before-write dominance + role typestate + lock-wrapper structure",
    "C11": "ordering of persistent effects on all paths incl. exception edges (marker set/clear, status write) + region coverage by try/finally",
    "C12": "return-condition analysis of forced completion + value-flow of missing jobs + ownership of Result construction",
    "C13": "guard dominance of destructive effects + role typestate with dirty bit on exception edges + selection filters + loop-bound idiom",
    "C14": "guarded call-graph reachability (every path to the hand-off crosses a not-canceled branch) with queue confinement + flag ownership",
    "C15": "dominance ordering (mark_complete before trigger; serialise before submit) + guard dominance of the stage check + value flow of stage numbers",
    "C16": "hook-site guard/ordering analysis on CFGs + typed attribute resolution on JobConfiguration receivers",
    "C17": "writer/reader key-set agreement (serialize vs __init__) + must-precede ordering of run_checks + raising-check presence per invalidity",
    "C18": "table agreement (SlurmConfig fields vs emitted options; status map) + return-condition analysis of submit + bounded-loop idiom of run_command",
    "C19": "value-flow chains command->argv, env, stdio names, Result fields; guard dominance of the append_* options",
    "C20": "if/elif extreme-update rule with initialisation agreement + abstract folding of Result predicates over a finite domain + one-counter-per-iteration path check",
}


def main():
    checks, na = [], []
    for p in PROPS:
        from jcheck.cli import load_rules

        load_rules(p)  # the property's own module + props/w8.py (wave-8 rules, shared rules) + the generic bundle
        if p in RULES and p not in NOT_APPLICABLE:
            info = PROPERTY_INFO.get(p, {})
            rules = RULES[p]
            nq = sum(1 for r in rules if r.tier == "quick")
            checks.append(
                {
                    "property_id": p,
                    "quick_cmd": f"./check {p} --tier quick",
                    "thorough_cmd": f"./check {p} --tier thorough",
                    "evidence_file": f"/verif/evidence/{p}.json",
                    "replay_cmd_template": "./check replay {path}",
                    "engine": "jcheck",
                    "level_claimed": {
                        "category": "other",
                        "text": "Static necessary-condition rules, decided on every path / call site / caller of the anchored code of /repo's current "
                        f"working tree ({nq} rules; thorough adds path-sensitive re-decision, whole-package sweeps and a mutation self-test of the rules). "
                        "It shows that the mechanisms the property rests on are intact for all inputs, schedules and crash points (the rules do not mention them); "
                        "it does not show that the mechanisms are sufficient, so the behaviour itself is not proved. "
                        + info.get("explanation", ""),
                        "design_ref": f"DESIGN.md section 6 ({p})",
                    },
                    "level_note": "Not decided: " + info.get("not_decided", "") + " Assumed/trusted: " + "; ".join(info.get("assumptions", []))
                    + "; CPython's parser; the frozen receiver-type / effect tables of jcheck (re-validated on every run; a vanished anchor is exit 2, never a pass).",
                    "technique": "static analysis: " + TECHNIQUE[p],
                }
            )
        else:
            na.append({"property_id": p, "reason": NOT_APPLICABLE.get(p, "not built yet in this round (static rules planned in DESIGN.md section 6); no claim is made")})
    manifest = {
        "version": 1,
        "setup_cmd": "true",
        "hooks": {
            "guard": "NREL_JADE_VERIF",
            "enable": "none needed: the checks read /repo's source and never import or run jade; no hook commits exist",
            "baseline_off_cmd": "cd /repo && /venv/bin/python -m pytest -ra -q -p no:cacheprovider --timeout=900 --continue-on-collection-errors",
            "source_commits": [],
            "add_only": True,
        },
        "engines": [
            {
                "name": "jcheck",
                "path": "/verif/jcheck",
                "serves_properties": [c["property_id"] for c in checks],
                "kind_free_text": "repository-specific static analyser (pure stdlib: ast, hand-built CFG with exception edges, guard sets, typed call graph, "
                "effect summaries, lock context, typestate, value flow); run as ./check <id> --tier quick|thorough",
            }
        ],
        "checks": checks,
        "not_applicable": na,
        "notes": "Family: static analysis only. Exit 0 = every rule instance PROVED (KNOWN-FINDING lines allowed); exit 1 + 'VIOLATION property=<id> replay=<path>' = a "
        "recognised breach of a rule; exit 2 + 'ANALYSIS-ERROR ...' = the code no longer has a shape the rule recognises (never reported as a violation, never a silent pass). "
        "Genuine defects found on the pinned tree were repaired by 'fix:' commits in /repo and are listed in /verif/KNOWN_FINDINGS.txt.",
    }
    with open(os.path.join(HERE, "MANIFEST.json"), "w") as f:
        json.dump(manifest, f, indent=1)
        f.write("\n")
    print(f"claimed {len(checks)} properties; not_applicable {len(na)}")


if __name__ == "__main__":
    main()

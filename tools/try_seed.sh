#!/bin/sh
# usage: tools/try_seed.sh <patch.diff> [props...]   - apply to /repo, run quick checks, undo
P="$1"; shift
PROPS="$@"; [ -z "$PROPS" ] && PROPS="C01 C02 C03 C04 C05 C06 C07 C08 C09 C10 C11 C12 C13 C14 C15 C16 C17 C18 C19 C20"
cd /verif || exit 2
git -C /repo apply "$P" || { echo "patch does not apply"; exit 2; }
for p in $PROPS; do
  ./check $p > /tmp/try_$p.out 2>&1; code=$?
  if [ $code -ne 0 ]; then echo "== $p exit=$code"; grep -E "^  rule |^ANALYSIS-ERROR|^    construct" /tmp/try_$p.out | cut -c1-400; fi
done
git -C /repo checkout -- .
git -C /verif checkout -- evidence 2>/dev/null
echo "(repo restored: $(git -C /repo status --short | wc -l) modified files)"

import os, subprocess
PROPS = [f"C{i:02d}" for i in range(1, 21)]
def overlay_of(patch):
    wt = f"/tmp/mx_{os.getpid()}_{abs(hash(patch)) % 100000}"
    subprocess.run(f"git -C /repo worktree remove --force {wt}", shell=True, capture_output=True)
    subprocess.run(f"git -C /repo worktree add -q --detach {wt} HEAD", shell=True, check=True, capture_output=True)
    try:
        subprocess.run(f"git apply {patch}", shell=True, check=True, cwd=wt, capture_output=True)
        names = subprocess.run("git diff --name-only", shell=True, cwd=wt, capture_output=True, text=True).stdout.split()
        return {n: open(os.path.join(wt, n)).read() for n in names if n.endswith(".py")}
    finally:
        subprocess.run(f"git -C /repo worktree remove --force {wt}", shell=True, capture_output=True)

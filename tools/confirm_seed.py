#!/usr/bin/env python3
"""Confirm a sub-agent's seeded change in a fresh scratch worktree and, if confirmed, keep it under
/verif/seeded/<ID>-<variant>/ (patch.diff, demo, meta.json).

usage: tools/confirm_seed.py C08 a "<breaks what>" "<needs what to manifest>"
"""
import json, os, re, shutil, subprocess, sys, time

def sh(cmd, cwd=None, timeout=1200):
    p = subprocess.run(cmd, shell=True, cwd=cwd, capture_output=True, text=True, timeout=timeout)
    return p.returncode, (p.stdout + p.stderr)

def main():
    pid, var = sys.argv[1], sys.argv[2]
    base = os.environ.get("SEED_DIR", "/tmp/seed")
    tag = os.environ.get("SEED_TAG", "")
    src = f"{base}/{pid}/{var}"
    wt = f"/tmp/cw_{pid}{var}"
    patch = f"{src}/patch.diff"
    demos = [f for f in os.listdir(src) if f.startswith("demo") and f.endswith(".py")]
    assert demos, "no demo"
    demo = demos[0]
    sh(f"git -C /repo worktree remove --force {wt}")
    rc, out = sh(f"git -C /repo worktree add -q --detach {wt} HEAD")
    assert rc == 0, out
    meta = {"property": pid, "variant": var, "ran": []}
    try:
        rc, out = sh(f"git apply {patch}", cwd=wt); assert rc == 0, "patch does not apply: " + out
        rc, out = sh("/venv/bin/python -m compileall -q jade", cwd=wt); meta["compiles"] = rc == 0
        rc, out = sh("/venv/bin/python -m pytest -q -p no:cacheprovider --timeout=900 --continue-on-collection-errors 2>&1 | tail -1", cwd=wt)
        meta["suite_with_change"] = out.strip().splitlines()[-1]
        m = re.search(r"(\d+) failed, (\d+) passed", out)
        meta["suite_ok"] = bool(m) and m.group(1) == "43" and m.group(2) == "125"
        is_pytest = "def test_" in open(f"{src}/{demo}").read()
        cmd = f"PYTHONPATH={wt} /venv/bin/python -m pytest -q -p no:cacheprovider {src}/{demo} 2>&1 | tail -3" if is_pytest else f"PYTHONPATH={wt} /venv/bin/python {src}/{demo} > /dev/null 2>&1; echo exit=$?"
        rc, out = sh(cmd, cwd=wt); meta["demo_with_change"] = out.strip().splitlines()[-1]
        failed_with = ("failed" in out or "error" in out.lower()) if is_pytest else "exit=0" not in out
        sh("git checkout -- . && git clean -fdq", cwd=wt)
        rc, out = sh(cmd, cwd=wt); meta["demo_without_change"] = out.strip().splitlines()[-1]
        passed_without = ("passed" in out and "failed" not in out) if is_pytest else "exit=0" in out
        meta["demo_fails_with_change"] = failed_with
        meta["demo_passes_without_change"] = passed_without
        meta["ran"] = [f"git worktree add {wt} HEAD; git apply patch.diff", "python -m compileall jade", "pytest (pinned suite command)", cmd.replace(wt, "<worktree>").replace(src, "<seed dir>"), "git checkout -- . ; same demo command"]
    finally:
        sh(f"git -C /repo worktree remove --force {wt}")
    meta["confirmed"] = bool(meta.get("compiles") and meta.get("suite_ok") and meta.get("demo_fails_with_change") and meta.get("demo_passes_without_change"))
    meta["breaks"] = sys.argv[3] if len(sys.argv) > 3 else ""
    meta["needs_to_manifest"] = sys.argv[4] if len(sys.argv) > 4 else ""
    meta["confirmed_at"] = time.strftime("%Y-%m-%dT%H:%M:%S")
    meta["source"] = "fresh sub-agent given only the property record and its own scratch worktree"
    print(json.dumps(meta, indent=1))
    if meta["confirmed"]:
        dst = f"/verif/seeded/{pid}-{tag}{var}"
        os.makedirs(dst, exist_ok=True)
        shutil.copy(patch, f"{dst}/patch.diff")
        shutil.copy(f"{src}/{demo}", f"{dst}/{demo}")
        if os.path.exists(f"{src}/notes.md"):
            shutil.copy(f"{src}/notes.md", f"{dst}/notes.md")
        json.dump(meta, open(f"{dst}/meta.json", "w"), indent=1)
        print("kept in", dst)
    return 0 if meta["confirmed"] else 1

sys.exit(main())

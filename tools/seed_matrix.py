#!/usr/bin/env python3
"""Run every quick check against every kept seeded change (in-memory overlays; /repo is not touched)
and write /verif/seeded/MATRIX.md: which rules report which change."""
import json, os, subprocess, sys, glob
from concurrent.futures import ProcessPoolExecutor

HERE = os.path.dirname(os.path.dirname(os.path.abspath(__file__)))
sys.path.insert(0, HERE)
PROPS = [f"C{i:02d}" for i in range(1, 21)]


def overlay_of(patch):
    wt = f"/tmp/mx_{os.getpid()}_{abs(hash(patch)) % 100000}"
    subprocess.run(f"git -C /repo worktree remove --force {wt}", shell=True, capture_output=True)
    subprocess.run(f"git -C /repo worktree add -q --detach {wt} HEAD", shell=True, check=True, capture_output=True)
    try:
        subprocess.run(f"git apply {patch}", shell=True, check=True, cwd=wt, capture_output=True)
        names = subprocess.run("git diff --name-only", shell=True, cwd=wt, capture_output=True, text=True).stdout.split()
        return {n: open(os.path.join(wt, n)).read() for n in names if n.endswith(".py")}
    finally:
        subprocess.run(f"git -C /repo worktree remove --force {wt}", shell=True, capture_output=True)


def run_one(args):
    sid, patch = args
    from jcheck.cli import check_property
    ov = overlay_of(patch)
    hits, unknown = [], []
    for p in PROPS:
        code, outcomes = check_property(p, "quick", 0, overlay=ov, quiet=True, write=False)
        if code == 2 and not outcomes:
            unknown.append(p + ".*")
        for o in outcomes:
            if o.verdict == "VIOLATION":
                hits.append(o.rd.id)
            elif o.verdict == "UNKNOWN":
                unknown.append(o.rd.id)
    return sid, hits, unknown


def main():
    seeds = sorted(glob.glob(os.path.join(HERE, "seeded", "*", "patch.diff")))
    jobs = [(os.path.basename(os.path.dirname(p)), p) for p in seeds]
    with ProcessPoolExecutor(max_workers=8) as ex:
        res = list(ex.map(run_one, jobs))
    lines = ["# Seeded changes x checks (quick tier, current rules)", "",
             "Each row: a confirmed property-breaking change kept under /verif/seeded/<id>/ and the rules that report VIOLATION for it.",
             "`own` = the check of the property the change was written against reports it.", "",
             "| seed | breaks | own check | rules reporting VIOLATION | analysis errors |", "|---|---|---|---|---|"]
    missed = 0
    for sid, hits, unknown in res:
        meta = json.load(open(os.path.join(HERE, "seeded", sid, "meta.json")))
        prop = meta["property"]
        own = any(h.startswith(prop + ".") for h in hits)
        if not hits:
            missed += 1
        lines.append(f"| {sid} | {meta.get('breaks','')[:110]} | {'yes' if own else ('other' if hits else 'MISSED')} | {', '.join(hits) or '-'} | {', '.join(unknown) or '-'} |")
    lines += ["", f"{len(res)} seeded changes, {len(res) - missed} reported by at least one check, {sum(1 for sid, h, u in res if any(x.startswith(json.load(open(os.path.join(HERE,'seeded',sid,'meta.json')))['property'] + '.') for x in h))} by the check of their own property."]
    open(os.path.join(HERE, "seeded", "MATRIX.md"), "w").write("\n".join(lines) + "\n")
    print("\n".join(lines[-1:]))
    for sid, hits, unknown in res:
        print(sid, hits or "MISSED", unknown or "")

main()

#!/usr/bin/env python3
"""tools/ast_fuzz.py [--props=C01,..] [--only=identity,...] [files...]

Robustness probe: behaviour-preserving AST rewrites of one jade source file at a time, re-emitted with ast.unparse (which also
re-formats: quotes, parentheses, line breaks), then all quick checks on that overlay.  Any verdict other than PROVED is a
rule that depends on surface syntax.

  identity   : parse + unparse only (a formatter pass)
  nested     : `if c: continue` followed by the rest of a loop body  ->  `if not c: <rest>`
  noteq      : `a != b` -> `not a == b`
  swapeq     : `a == b` -> `b == a` (and `!=`) when both operands are names / attributes / constants / subscripts of those
  splitand   : `if a and b: body` (no else) -> `if a: if b: body`
"""
import ast, copy, glob, os, sys
from concurrent.futures import ProcessPoolExecutor

HERE = os.path.dirname(os.path.dirname(os.path.abspath(__file__)))
sys.path.insert(0, HERE)
REPO = os.environ.get("JCHECK_REPO", "/repo")
PROPS = [f"C{i:02d}" for i in range(1, 21)]
ONLY = None
for _a in sys.argv[1:]:
    if _a.startswith("--props="):
        PROPS = _a.split("=", 1)[1].split(",")
    if _a.startswith("--only="):
        ONLY = _a.split("=", 1)[1].split(",")


def _pure(e):
    if isinstance(e, (ast.Name, ast.Constant)):
        return True
    if isinstance(e, ast.Attribute):
        return _pure(e.value)
    if isinstance(e, ast.Subscript):
        return _pure(e.value) and _pure(e.slice)
    return False


class Nested(ast.NodeTransformer):
    def _fix(self, body):
        out = []
        i = 0
        while i < len(body):
            st = body[i]
            if isinstance(st, ast.If) and not st.orelse and len(st.body) == 1 and isinstance(st.body[0], ast.Continue) and i + 1 < len(body):
                rest = self._fix(body[i + 1:])
                new = ast.If(test=ast.UnaryOp(op=ast.Not(), operand=st.test), body=rest, orelse=[])
                out.append(ast.copy_location(new, st))
                return out
            out.append(st)
            i += 1
        return out

    def visit_For(self, node):
        self.generic_visit(node)
        node.body = self._fix(node.body)
        return node

    visit_While = visit_For


class NotEq(ast.NodeTransformer):
    def visit_Compare(self, node):
        self.generic_visit(node)
        if len(node.ops) == 1 and isinstance(node.ops[0], ast.NotEq):
            return ast.copy_location(ast.UnaryOp(op=ast.Not(), operand=ast.Compare(left=node.left, ops=[ast.Eq()], comparators=node.comparators)), node)
        return node


class SwapEq(ast.NodeTransformer):
    def visit_Compare(self, node):
        self.generic_visit(node)
        if len(node.ops) == 1 and isinstance(node.ops[0], (ast.Eq, ast.NotEq)) and _pure(node.left) and _pure(node.comparators[0]):
            return ast.copy_location(ast.Compare(left=node.comparators[0], ops=node.ops, comparators=[node.left]), node)
        return node


class SplitAnd(ast.NodeTransformer):
    def visit_If(self, node):
        self.generic_visit(node)
        if not node.orelse and isinstance(node.test, ast.BoolOp) and isinstance(node.test.op, ast.And) and len(node.test.values) == 2:
            inner = ast.If(test=node.test.values[1], body=node.body, orelse=[])
            return ast.copy_location(ast.If(test=node.test.values[0], body=[ast.copy_location(inner, node)], orelse=[]), node)
        return node




class Comp2Loop(ast.NodeTransformer):
    """x = [elt for v in it if c]  ->  x = []; for v in it: if c: x.append(elt)   (statement level, plain Name target)"""
    def _fix(self, body):
        out = []
        for st in body:
            if isinstance(st, ast.Assign) and len(st.targets) == 1 and isinstance(st.targets[0], ast.Name) and isinstance(st.value, ast.ListComp) and len(st.value.generators) == 1 and not st.value.generators[0].is_async:
                g = st.value.generators[0]
                tgt = st.targets[0].id
                if any(isinstance(x, ast.Name) and x.id == tgt for x in ast.walk(st.value)):
                    out.append(st)
                    continue
                app = ast.Expr(value=ast.Call(func=ast.Attribute(value=ast.Name(id=tgt, ctx=ast.Load()), attr="append", ctx=ast.Load()), args=[st.value.elt], keywords=[]))
                inner = [app]
                for c in reversed(g.ifs):
                    inner = [ast.If(test=c, body=inner, orelse=[])]
                out.append(ast.copy_location(ast.Assign(targets=[ast.Name(id=tgt, ctx=ast.Store())], value=ast.List(elts=[], ctx=ast.Load())), st))
                out.append(ast.copy_location(ast.For(target=g.target, iter=g.iter, body=inner, orelse=[]), st))
            else:
                out.append(st)
        return out

    def generic_visit(self, node):
        super().generic_visit(node)
        for f in ("body", "orelse", "finalbody"):
            b = getattr(node, f, None)
            if isinstance(b, list) and b and isinstance(b[0], ast.stmt):
                setattr(node, f, self._fix(b))
        return node


class Loop2Comp(ast.NodeTransformer):
    """x = []; for v in it: x.append(elt)  ->  x = [elt for v in it]   (adjacent statements, body is the single append, optional single if)"""
    def _fix(self, body):
        out, i = [], 0
        while i < len(body):
            st = body[i]
            nxt = body[i + 1] if i + 1 < len(body) else None
            ok = (isinstance(st, ast.Assign) and len(st.targets) == 1 and isinstance(st.targets[0], ast.Name) and isinstance(st.value, ast.List) and not st.value.elts
                  and isinstance(nxt, ast.For) and not nxt.orelse and len(nxt.body) == 1)
            if ok:
                tgt = st.targets[0].id
                inner, ifs = nxt.body[0], []
                while isinstance(inner, ast.If) and not inner.orelse and len(inner.body) == 1:
                    ifs.append(inner.test)
                    inner = inner.body[0]
                c = inner.value if isinstance(inner, ast.Expr) else None
                if isinstance(c, ast.Call) and isinstance(c.func, ast.Attribute) and c.func.attr == "append" and isinstance(c.func.value, ast.Name) and c.func.value.id == tgt and len(c.args) == 1 \
                        and not any(isinstance(x, ast.Name) and x.id == tgt for x in ast.walk(c.args[0])) and not any(isinstance(x, ast.Name) and x.id == tgt for t in ifs for x in ast.walk(t)):
                    comp = ast.ListComp(elt=c.args[0], generators=[ast.comprehension(target=nxt.target, iter=nxt.iter, ifs=ifs, is_async=0)])
                    out.append(ast.copy_location(ast.Assign(targets=[ast.Name(id=tgt, ctx=ast.Store())], value=comp), st))
                    i += 2
                    continue
            out.append(st)
            i += 1
        return out

    def generic_visit(self, node):
        super().generic_visit(node)
        for f in ("body", "orelse", "finalbody"):
            b = getattr(node, f, None)
            if isinstance(b, list) and b and isinstance(b[0], ast.stmt):
                setattr(node, f, self._fix(b))
        return node


class UnElse(ast.NodeTransformer):
    """if c: ...; return/raise/continue/break  else: rest   ->   if c: ...jump ; rest"""
    def _fix(self, body):
        out = []
        for st in body:
            if isinstance(st, ast.If) and st.orelse and isinstance(st.body[-1], (ast.Return, ast.Raise, ast.Continue, ast.Break)) and not (len(st.orelse) == 1 and isinstance(st.orelse[0], ast.If)):
                out.append(ast.copy_location(ast.If(test=st.test, body=st.body, orelse=[]), st))
                out.extend(st.orelse)
            else:
                out.append(st)
        return out

    def generic_visit(self, node):
        super().generic_visit(node)
        for f in ("body", "orelse", "finalbody"):
            b = getattr(node, f, None)
            if isinstance(b, list) and b and isinstance(b[0], ast.stmt):
                setattr(node, f, self._fix(b))
        return node


class AugExpand(ast.NodeTransformer):
    """x += e -> x = x + e  for plain names and self.<attr> targets with a numeric/str constant or name on the right (no list +=)"""
    def visit_AugAssign(self, node):
        if isinstance(node.op, ast.Add) and (isinstance(node.target, ast.Name) or (isinstance(node.target, ast.Attribute) and _pure(node.target))) and isinstance(node.value, ast.Constant) and isinstance(node.value.value, (int, float)):
            load = copy.deepcopy(node.target)
            for x in ast.walk(load):
                if hasattr(x, "ctx"):
                    x.ctx = ast.Load()
            return ast.copy_location(ast.Assign(targets=[node.target], value=ast.BinOp(left=load, op=ast.Add(), right=node.value)), node)
        return node




def _neg(test):
    if isinstance(test, ast.UnaryOp) and isinstance(test.op, ast.Not):
        return test.operand
    return ast.UnaryOp(op=ast.Not(), operand=test)


class IfElseInvert(ast.NodeTransformer):
    """if c: A else: B  ->  if not c: B else: A   (plain two-branch ifs, not elif chains)"""
    def visit_If(self, node):
        self.generic_visit(node)
        if node.orelse and not (len(node.orelse) == 1 and isinstance(node.orelse[0], ast.If)) and not (len(node.body) == 1 and isinstance(node.body[0], ast.If)):
            return ast.copy_location(ast.If(test=_neg(node.test), body=node.orelse, orelse=node.body), node)
        return node


class GuardInvert(ast.NodeTransformer):
    """loop body / function body ending in `if c: <body>` (no else)  ->  `if not c: continue/return` + <body>"""
    def _tail(self, body, jump):
        if body and isinstance(body[-1], ast.If) and not body[-1].orelse and len(body[-1].body) >= 2:
            st = body[-1]
            guard = ast.copy_location(ast.If(test=_neg(st.test), body=[ast.copy_location(jump(), st)], orelse=[]), st)
            return body[:-1] + [guard] + st.body
        return body

    def visit_For(self, node):
        self.generic_visit(node)
        node.body = self._tail(node.body, ast.Continue)
        return node

    visit_While = visit_For

    def visit_FunctionDef(self, node):
        self.generic_visit(node)
        has_value_return = any(isinstance(x, ast.Return) and x.value is not None for x in ast.walk(node))
        if not has_value_return and not any(isinstance(x, (ast.Yield, ast.YieldFrom)) for x in ast.walk(node)):
            node.body = self._tail(node.body, lambda: ast.Return(value=None))
        return node


def _chain_depth(e):
    d = 0
    while isinstance(e, ast.Attribute):
        d, e = d + 1, e.value
    return d if isinstance(e, ast.Name) else 0


class HoistArg(ast.NodeTransformer):
    """`x = f(..., a.b.c, ...)` / `f(..., a.b.c, ...)` / `return f(...)`: the first positional argument that is a pure attribute chain
    of depth >= 2 is bound to a fresh local on the line before (one statement per block, to stay modest)"""
    def __init__(self):
        self.n = 0

    def _fix(self, body):
        out = []
        for st in body:
            call = None
            if isinstance(st, ast.Assign) and isinstance(st.value, ast.Call):
                call = st.value
            elif isinstance(st, ast.Expr) and isinstance(st.value, ast.Call):
                call = st.value
            elif isinstance(st, ast.Return) and isinstance(st.value, ast.Call):
                call = st.value
            if call is not None and _pure(call.func):
                for i, a in enumerate(call.args):
                    if _chain_depth(a) >= 2 and all(_pure(x) for x in call.args[:i]):
                        self.n += 1
                        tmp = f"hoisted_{self.n}"
                        out.append(ast.copy_location(ast.Assign(targets=[ast.Name(id=tmp, ctx=ast.Store())], value=a), st))
                        call.args[i] = ast.Name(id=tmp, ctx=ast.Load())
                        break
            out.append(st)
        return out

    def generic_visit(self, node):
        super().generic_visit(node)
        for f in ("body", "orelse", "finalbody"):
            b = getattr(node, f, None)
            if isinstance(b, list) and b and isinstance(b[0], ast.stmt):
                setattr(node, f, self._fix(b))
        return node


class InlineTemp(ast.NodeTransformer):
    """`t = <pure expr>` immediately followed by a simple statement that reads t exactly once, t bound and read nowhere else in the function -> inlined"""
    def visit_FunctionDef(self, node):
        self.generic_visit(node)
        counts = {}
        for x in ast.walk(node):
            if isinstance(x, ast.Name):
                c = counts.setdefault(x.id, [0, 0])
                c[0 if isinstance(x.ctx, ast.Store) else 1] += 1

        def fix(body):
            out, i = [], 0
            while i < len(body):
                st = body[i]
                nxt = body[i + 1] if i + 1 < len(body) else None
                if (isinstance(st, ast.Assign) and len(st.targets) == 1 and isinstance(st.targets[0], ast.Name) and _pure(st.value) and not isinstance(st.value, ast.Constant)
                        and counts.get(st.targets[0].id) == [1, 1] and isinstance(nxt, (ast.Assign, ast.Expr, ast.Return, ast.AugAssign))
                        and sum(1 for x in ast.walk(nxt) if isinstance(x, ast.Name) and x.id == st.targets[0].id and isinstance(x.ctx, ast.Load)) == 1):
                    name, val = st.targets[0].id, st.value

                    class Sub(ast.NodeTransformer):
                        def visit_Name(self, n):
                            return copy.deepcopy(val) if n.id == name and isinstance(n.ctx, ast.Load) else n

                    out.append(Sub().visit(nxt))
                    i += 2
                    continue
                out.append(st)
                i += 1
            return out

        for sub in ast.walk(node):
            for f in ("body", "orelse", "finalbody"):
                b = getattr(sub, f, None)
                if isinstance(b, list) and b and isinstance(b[0], ast.stmt):
                    setattr(sub, f, fix(b))
        return node


class SwapAdjacent(ast.NodeTransformer):
    """two adjacent `name = <pure expr>` statements that do not mention each other's target -> swapped"""
    def _fix(self, body):
        out, i = [], 0
        while i < len(body):
            a = body[i]
            b = body[i + 1] if i + 1 < len(body) else None

            def simple(st):
                return isinstance(st, ast.Assign) and len(st.targets) == 1 and isinstance(st.targets[0], ast.Name) and _pure(st.value)

            if b is not None and simple(a) and simple(b):
                ta, tb = a.targets[0].id, b.targets[0].id
                names_a = {x.id for x in ast.walk(a.value) if isinstance(x, ast.Name)}
                names_b = {x.id for x in ast.walk(b.value) if isinstance(x, ast.Name)}
                if ta != tb and ta not in names_b and tb not in names_a:
                    out += [b, a]
                    i += 2
                    continue
            out.append(a)
            i += 1
        return out

    def generic_visit(self, node):
        super().generic_visit(node)
        for f in ("body", "orelse", "finalbody"):
            b = getattr(node, f, None)
            if isinstance(b, list) and b and isinstance(b[0], ast.stmt):
                setattr(node, f, self._fix(b))
        return node


class DeMorgan(ast.NodeTransformer):
    """`not (a and b)` -> `not a or not b`;  a test that is an `or` of negations -> `not (x and y)`;  `a and b` guarding a raise/return is left alone"""
    def visit_UnaryOp(self, node):
        self.generic_visit(node)
        if isinstance(node.op, ast.Not) and isinstance(node.operand, ast.BoolOp):
            dual = ast.Or() if isinstance(node.operand.op, ast.And) else ast.And()
            return ast.copy_location(ast.BoolOp(op=dual, values=[_neg(v) for v in node.operand.values]), node)
        return node

    def visit_BoolOp(self, node):
        self.generic_visit(node)
        if all(isinstance(v, ast.UnaryOp) and isinstance(v.op, ast.Not) for v in node.values):
            dual = ast.Or() if isinstance(node.op, ast.And) else ast.And()
            return ast.copy_location(ast.UnaryOp(op=ast.Not(), operand=ast.BoolOp(op=dual, values=[v.operand for v in node.values])), node)
        return node


class IfExp2If(ast.NodeTransformer):
    """`x = a if c else b` -> if c: x = a else: x = b ;  `return a if c else b` likewise"""
    def _fix(self, body):
        out = []
        for st in body:
            if isinstance(st, ast.Assign) and isinstance(st.value, ast.IfExp) and len(st.targets) == 1 and isinstance(st.targets[0], (ast.Name, ast.Attribute)):
                e = st.value
                out.append(ast.copy_location(ast.If(test=e.test, body=[ast.copy_location(ast.Assign(targets=[copy.deepcopy(st.targets[0])], value=e.body), st)],
                                                    orelse=[ast.copy_location(ast.Assign(targets=[copy.deepcopy(st.targets[0])], value=e.orelse), st)]), st))
            elif isinstance(st, ast.Return) and isinstance(st.value, ast.IfExp):
                e = st.value
                out.append(ast.copy_location(ast.If(test=e.test, body=[ast.copy_location(ast.Return(value=e.body), st)], orelse=[ast.copy_location(ast.Return(value=e.orelse), st)]), st))
            else:
                out.append(st)
        return out

    def generic_visit(self, node):
        super().generic_visit(node)
        for f in ("body", "orelse", "finalbody"):
            b = getattr(node, f, None)
            if isinstance(b, list) and b and isinstance(b[0], ast.stmt):
                setattr(node, f, self._fix(b))
        return node


class If2IfExp(ast.NodeTransformer):
    """if c: x = a else: x = b  ->  x = a if c else b   (same simple target in both single-statement branches)"""
    def visit_If(self, node):
        self.generic_visit(node)
        if len(node.body) == 1 and len(node.orelse) == 1:
            a, b = node.body[0], node.orelse[0]
            if isinstance(a, ast.Assign) and isinstance(b, ast.Assign) and len(a.targets) == 1 and len(b.targets) == 1 and ast.dump(a.targets[0]) == ast.dump(b.targets[0]) and isinstance(a.targets[0], (ast.Name, ast.Attribute)):
                return ast.copy_location(ast.Assign(targets=[a.targets[0]], value=ast.IfExp(test=node.test, body=a.value, orelse=b.value)), node)
            if isinstance(a, ast.Return) and isinstance(b, ast.Return) and a.value is not None and b.value is not None:
                return ast.copy_location(ast.Return(value=ast.IfExp(test=node.test, body=a.value, orelse=b.value)), node)
        return node


class ContGuard(ast.NodeTransformer):
    """loop body `if c: continue` + rest  ->  `if not c: rest`  (the guard's body is the single continue, rest is non-empty, no else)"""
    def _fix(self, body):
        for i, st in enumerate(body):
            if isinstance(st, ast.If) and not st.orelse and len(st.body) == 1 and isinstance(st.body[0], ast.Continue) and body[i + 1:]:
                return body[:i] + [ast.copy_location(ast.If(test=_neg(st.test), body=self._fix(body[i + 1:]), orelse=[]), st)]
        return body

    def visit_For(self, node):
        self.generic_visit(node)
        node.body = self._fix(node.body)
        return node

    visit_While = visit_For


class AnyAll(ast.NodeTransformer):
    """`x = any(<genexp over one for>)` / `return any(...)` / `if any(...):`  ->  an explicit flag loop with break (and all() likewise)"""
    def __init__(self):
        self.n = 0

    def _loop(self, call, st):
        g = call.args[0]
        gen = g.generators[0]
        self.n += 1
        flag = f"flag_{self.n}"
        is_any = call.func.id == "any"
        test = g.elt if is_any else _neg(g.elt)
        inner = [ast.If(test=test, body=[ast.Assign(targets=[ast.Name(id=flag, ctx=ast.Store())], value=ast.Constant(value=is_any)), ast.Break()], orelse=[])]
        for c in reversed(gen.ifs):
            inner = [ast.If(test=c, body=inner, orelse=[])]
        pre = [ast.Assign(targets=[ast.Name(id=flag, ctx=ast.Store())], value=ast.Constant(value=not is_any)), ast.For(target=gen.target, iter=gen.iter, body=inner, orelse=[])]
        return [ast.copy_location(x, st) for x in pre], ast.Name(id=flag, ctx=ast.Load())

    @staticmethod
    def _is(call):
        return (isinstance(call, ast.Call) and isinstance(call.func, ast.Name) and call.func.id in ("any", "all") and len(call.args) == 1 and isinstance(call.args[0], ast.GeneratorExp)
                and len(call.args[0].generators) == 1)

    def _fix(self, body):
        out = []
        for st in body:
            if isinstance(st, (ast.Assign, ast.Return)) and self._is(st.value):
                pre, name = self._loop(st.value, st)
                st.value = name
                out += pre
            elif isinstance(st, ast.If) and self._is(st.test):
                pre, name = self._loop(st.test, st)
                st.test = name
                out += pre
            elif isinstance(st, ast.If) and isinstance(st.test, ast.UnaryOp) and isinstance(st.test.op, ast.Not) and self._is(st.test.operand):
                pre, name = self._loop(st.test.operand, st)
                st.test.operand = name
                out += pre
            out.append(st)
        return out

    def generic_visit(self, node):
        super().generic_visit(node)
        for f in ("body", "orelse", "finalbody"):
            b = getattr(node, f, None)
            if isinstance(b, list) and b and isinstance(b[0], ast.stmt):
                setattr(node, f, self._fix(b))
        return node


class LenZero(ast.NodeTransformer):
    """`len(x) == 0` -> `not x`, `len(x) > 0` / `len(x) != 0` -> `x` in if/while/assert tests"""
    def _t(self, t):
        if isinstance(t, ast.Compare) and len(t.ops) == 1 and isinstance(t.left, ast.Call) and isinstance(t.left.func, ast.Name) and t.left.func.id == "len" and isinstance(t.comparators[0], ast.Constant) and t.comparators[0].value == 0:
            x = t.left.args[0]
            if isinstance(t.ops[0], ast.Eq):
                return ast.UnaryOp(op=ast.Not(), operand=x)
            if isinstance(t.ops[0], (ast.Gt, ast.NotEq)):
                return x
        if isinstance(t, ast.UnaryOp) and isinstance(t.op, ast.Not):
            t.operand = self._t(t.operand)
        if isinstance(t, ast.BoolOp):
            t.values = [self._t(v) for v in t.values]
        return t

    def visit_If(self, node):
        self.generic_visit(node)
        node.test = self._t(node.test)
        return node

    visit_While = visit_If
    visit_Assert = visit_If


class AddElse(ast.NodeTransformer):
    """`if c: ...; return/continue/raise` followed by rest -> rest moved into an else branch"""
    def _fix(self, body):
        for i, st in enumerate(body):
            if isinstance(st, ast.If) and not st.orelse and isinstance(st.body[-1], (ast.Return, ast.Continue, ast.Raise)) and body[i + 1:]:
                return body[:i] + [ast.copy_location(ast.If(test=st.test, body=st.body, orelse=self._fix(body[i + 1:])), st)]
        return body

    def generic_visit(self, node):
        super().generic_visit(node)
        if isinstance(node, (ast.FunctionDef, ast.For, ast.While)):
            node.body = self._fix(node.body)
        return node


class MergeIf(ast.NodeTransformer):
    """`if a: if b: X` (neither has an else, inner is the only statement) -> `if a and b: X`"""
    def visit_If(self, node):
        self.generic_visit(node)
        if not node.orelse and len(node.body) == 1 and isinstance(node.body[0], ast.If) and not node.body[0].orelse:
            inner = node.body[0]
            return ast.copy_location(ast.If(test=ast.BoolOp(op=ast.And(), values=[node.test, inner.test]), body=inner.body, orelse=[]), node)
        return node


class NotIn(ast.NodeTransformer):
    """`a not in b` -> `not a in b`, `a is not b` -> `not a is b`"""
    def visit_Compare(self, node):
        self.generic_visit(node)
        if len(node.ops) == 1 and isinstance(node.ops[0], (ast.NotIn, ast.IsNot)):
            op = ast.In() if isinstance(node.ops[0], ast.NotIn) else ast.Is()
            return ast.copy_location(ast.UnaryOp(op=ast.Not(), operand=ast.Compare(left=node.left, ops=[op], comparators=node.comparators)), node)
        return node


class HoistCall(ast.NodeTransformer):
    """`f(a, g(x), ...)` / `x = C(..., obj.m(), ...)`: the first argument that is itself a call, when the callee expression and all earlier
    arguments are pure names / attribute chains / constants (so evaluation order is unchanged), is bound to a fresh local on the line before.
    Keyword arguments are treated alike if no positional argument after them exists (they are evaluated in source order)."""
    def __init__(self):
        self.n = 0

    def _fix(self, body):
        out = []
        for st in body:
            call = None
            if isinstance(st, (ast.Assign, ast.Expr, ast.Return)) and isinstance(st.value, ast.Call):
                call = st.value
            if call is not None and _pure(call.func):
                items = [("a", i, a) for i, a in enumerate(call.args)] + [("k", i, k.value) for i, k in enumerate(call.keywords) if k.arg is not None]
                if not any(isinstance(a, ast.Starred) for a in call.args) and all(k.arg is not None for k in call.keywords):
                    for kind, i, a in items:
                        if isinstance(a, ast.Call) and _pure(a.func) and all(_pure(x) for x in a.args) and not a.keywords:
                            self.n += 1
                            tmp = f"hoistedcall_{self.n}"
                            out.append(ast.copy_location(ast.Assign(targets=[ast.Name(id=tmp, ctx=ast.Store())], value=a), st))
                            if kind == "a":
                                call.args[i] = ast.Name(id=tmp, ctx=ast.Load())
                            else:
                                [k for k in call.keywords if k.arg is not None][i].value = ast.Name(id=tmp, ctx=ast.Load())
                            break
                        if not _pure(a):
                            break
            out.append(st)
        return out

    def generic_visit(self, node):
        super().generic_visit(node)
        for f in ("body", "orelse", "finalbody"):
            b = getattr(node, f, None)
            if isinstance(b, list) and b and isinstance(b[0], ast.stmt):
                setattr(node, f, self._fix(b))
        return node


KINDS = {"identity": None, "nested": Nested, "noteq": NotEq, "swapeq": SwapEq, "splitand": SplitAnd, "comp2loop": Comp2Loop, "loop2comp": Loop2Comp, "unelse": UnElse, "augexpand": AugExpand, "ifelse": IfElseInvert, "guardinv": GuardInvert, "hoistarg": HoistArg, "inlinetemp": InlineTemp, "swapadj": SwapAdjacent, "demorgan": DeMorgan, "ifexp2if": IfExp2If, "if2ifexp": If2IfExp, "contguard": ContGuard, "anyall": AnyAll, "lenzero": LenZero, "addelse": AddElse, "mergeif": MergeIf, "notin": NotIn, "hoistcall": HoistCall}


def transform(src, kind):
    tree = ast.parse(src)
    t = KINDS[kind]
    if t is not None:
        before = ast.dump(tree)
        tree = ast.fix_missing_locations(t().visit(tree))
        if ast.dump(tree) == before:
            return None
    out = ast.unparse(tree) + "\n"
    compile(out, "<fuzz>", "exec")
    return out


def run(job):
    rel, kind = job
    from jcheck.cli import check_property
    src = open(os.path.join(REPO, rel), encoding="utf-8").read()
    try:
        new = transform(src, kind)
    except SyntaxError as exc:
        return rel, kind, [f"transform produced invalid code: {exc}"]
    if new is None:
        return rel, kind, None
    bad = []
    for p in PROPS:
        code, outcomes = check_property(p, "quick", 0, overlay={rel: new}, quiet=True, write=False)
        if code == 2 and not outcomes:
            bad.append(f"{p}: whole check ANALYSIS-ERROR")
        for o in outcomes:
            if o.verdict != "PROVED":
                bad.append(f"{o.rd.id}={o.verdict}: {(o.error or (o.findings[0]['key'] if o.findings else ''))[:150]}")
    return rel, kind, bad


def main():
    args = [a for a in sys.argv[1:] if not a.startswith("--")]
    files = args or sorted(os.path.relpath(p, REPO) for p in glob.glob(os.path.join(REPO, "jade", "**", "*.py"), recursive=True) if "/extensions/demo/" not in p)
    kinds = ONLY or list(KINDS)
    jobs = [(f, k) for k in kinds for f in files]
    nbad = nrun = 0
    with ProcessPoolExecutor(max_workers=int(os.environ.get("JOBS", "14"))) as ex:
        for rel, kind, bad in ex.map(run, jobs):
            if bad is None:
                continue
            nrun += 1
            if bad:
                nbad += 1
                print(f"ALARM  {kind:9s} {rel}", flush=True)
                for b in bad:
                    print("    ", b)
    print(f"{nrun} overlays, {nbad} with alarms")
    return 1 if nbad else 0


if __name__ == "__main__":
    sys.exit(main())

#!/usr/bin/env python3
"""tools/rename_fuzz.py [--per-function] [files...]

Robustness probe for the rules: rename every local variable (not parameters) of every function of a jade source file
to <name>_rn - a behaviour-preserving edit - and run all 20 quick checks on that overlay.  Any VIOLATION / ANALYSIS-ERROR
is a rule that depends on a local's spelling.  With --per-function one overlay per function (slower, pinpoints)."""
import ast, os, sys, glob
from concurrent.futures import ProcessPoolExecutor

HERE = os.path.dirname(os.path.dirname(os.path.abspath(__file__)))
sys.path.insert(0, HERE)
REPO = os.environ.get("JCHECK_REPO", "/repo")
PROPS = [f"C{i:02d}" for i in range(1, 21)]
for _a in sys.argv[1:]:
    if _a.startswith("--props="):
        PROPS = _a.split("=", 1)[1].split(",")


def _locals_of(fn):
    params = {a.arg for a in fn.args.posonlyargs + fn.args.args + fn.args.kwonlyargs}
    if fn.args.vararg:
        params.add(fn.args.vararg.arg)
    if fn.args.kwarg:
        params.add(fn.args.kwarg.arg)
    declared = set()
    bound = set()
    for n in ast.walk(fn):
        if isinstance(n, (ast.Global, ast.Nonlocal)):
            declared |= set(n.names)
        if isinstance(n, ast.Name) and isinstance(n.ctx, (ast.Store, ast.Del)):
            bound.add(n.id)
        if isinstance(n, (ast.FunctionDef, ast.AsyncFunctionDef, ast.Lambda)) and n is not fn:
            a = n.args
            for x in a.posonlyargs + a.args + a.kwonlyargs:
                params.add(x.arg)          # do not touch names that are parameters of nested functions
        if isinstance(n, ast.ExceptHandler) and n.name:
            pass                            # `except E as exc`: the name is not an ast.Name node; leave it
    handler_names = {n.name for n in ast.walk(fn) if isinstance(n, ast.ExceptHandler) and n.name}
    return bound - params - declared - handler_names - {"_", "self", "cls"}


def rename_source(src, only=None):
    tree = ast.parse(src)
    edits = []
    funcs = [n for n in ast.walk(tree) if isinstance(n, (ast.FunctionDef, ast.AsyncFunctionDef))]
    # outermost functions only (nested ones are renamed with their parent)
    nested = {id(c) for f in funcs for c in ast.walk(f) if c is not f and isinstance(c, (ast.FunctionDef, ast.AsyncFunctionDef))}
    done = []
    for f in funcs:
        if id(f) in nested:
            continue
        if only is not None and f.name != only[0] or (only is not None and f.lineno != only[1]):
            continue
        names = _locals_of(f)
        if not names:
            continue
        done.append((f.name, f.lineno))
        for n in ast.walk(f):
            if isinstance(n, ast.Name) and n.id in names:
                edits.append((n.lineno, n.col_offset, n.end_col_offset, n.id + "_rn"))
    lines = src.split("\n")
    for ln, c0, c1, new in sorted(set(edits), reverse=True):
        raw = lines[ln - 1].encode("utf-8")
        lines[ln - 1] = (raw[:c0] + new.encode() + raw[c1:]).decode("utf-8")
    out = "\n".join(lines)
    compile(out, "<renamed>", "exec")
    return out, done


def functions_of(src):
    tree = ast.parse(src)
    funcs = [n for n in ast.walk(tree) if isinstance(n, (ast.FunctionDef, ast.AsyncFunctionDef))]
    nested = {id(c) for f in funcs for c in ast.walk(f) if c is not f and isinstance(c, (ast.FunctionDef, ast.AsyncFunctionDef))}
    return [(f.name, f.lineno) for f in funcs if id(f) not in nested and _locals_of(f)]


def run(job):
    rel, only = job
    from jcheck.cli import check_property
    src = open(os.path.join(REPO, rel), encoding="utf-8").read()
    try:
        new, done = rename_source(src, only)
    except SyntaxError as exc:
        return rel, only, [f"rename produced invalid code: {exc}"]
    if not done:
        return rel, only, []
    bad = []
    for p in PROPS:
        code, outcomes = check_property(p, "quick", 0, overlay={rel: new}, quiet=True, write=False)
        if code == 2 and not outcomes:
            bad.append(f"{p}: whole check ANALYSIS-ERROR")
        for o in outcomes:
            if o.verdict != "PROVED":
                bad.append(f"{o.rd.id}={o.verdict}: {(o.error or (o.findings[0]['key'] if o.findings else ''))[:150]}")
    return rel, only, bad


def main():
    args = [a for a in sys.argv[1:] if not a.startswith("--")]
    per_fn = "--per-function" in sys.argv
    files = args or sorted(os.path.relpath(p, REPO) for p in glob.glob(os.path.join(REPO, "jade", "**", "*.py"), recursive=True) if "/extensions/demo/" not in p)
    jobs = []
    for rel in files:
        src = open(os.path.join(REPO, rel), encoding="utf-8").read()
        if per_fn:
            jobs += [(rel, fn) for fn in functions_of(src)]
        else:
            jobs.append((rel, None))
    nbad = 0
    with ProcessPoolExecutor(max_workers=int(os.environ.get("JOBS", "14"))) as ex:
        for rel, only, bad in ex.map(run, jobs):
            tag = "ALARM " if bad else "silent"
            if bad:
                nbad += 1
            print(f"{tag} {rel}{' :: ' + only[0] + '@' + str(only[1]) if only else ''}", flush=True)
            for b in bad:
                print("    ", b)
    print(f"{len(jobs)} overlays, {nbad} with alarms")
    return 1 if nbad else 0


if __name__ == "__main__":
    sys.exit(main())
